#!/venv/bin/python
"""Regenerates /verif/MANIFEST.json from the check modules' MANIFEST dicts."""
import importlib
import json
import os
import sys

ROOT = os.path.dirname(os.path.dirname(os.path.abspath(__file__)))
sys.path.insert(0, ROOT)
ALL = ["C%02d" % i for i in range(1, 20)]
BASELINE = ("cd /repo && env -u YAMLPATH_VERIF /venv/bin/python -m pytest -ra -q -p no:cacheprovider "
            "--timeout=900 --continue-on-collection-errors")
PENDING_REASON = {
}


def main():
    checks, na = [], []
    for pid in ALL:
        path = os.path.join(ROOT, "vf", "checks", pid + ".py")
        if not os.path.exists(path):
            na.append({"property_id": pid, "reason": PENDING_REASON.get(
                pid, "check not built yet in this round (runtime-monitoring design in DESIGN.md section 3); not claimed until its monitor exists and is silent on the unchanged tree")})
            continue
        mod = importlib.import_module("vf.checks." + pid)
        m = mod.MANIFEST
        checks.append({
            "property_id": pid,
            "quick_cmd": "cd /verif && /venv/bin/python -m vf.run %s --tier quick" % pid,
            "thorough_cmd": "cd /verif && /venv/bin/python -m vf.run %s --tier thorough" % pid,
            "evidence_file": "/verif/evidence/%s.json" % pid,
            "replay_cmd_template": "cd /verif && /venv/bin/python -m vf.run %s --replay {path}" % pid,
            "engine": "vf",
            "level_claimed": {"category": mod.LEVEL, "text": m["level_text"],
                              "design_ref": "DESIGN.md section 3, %s" % pid},
            "level_note": m["level_note"],
            "technique": m["technique"],
        })
    man = {
        "version": 1,
        "setup_cmd": "cd /verif && /venv/bin/python -m compileall -q vf && chmod +x tools/fake-eyaml tools/repo_tests.sh 2>/dev/null; true",
        "hooks": {
            "guard": "YAMLPATH_VERIF",
            "enable": "no source hooks in /repo: monitors (API-boundary recorders, sys.monitoring reach/step counters, sys.addaudithook file-system tracer and failpoints) are installed from /verif/vf at run time by the harness, which sets YAMLPATH_VERIF=1 for its workers",
            "baseline_off_cmd": BASELINE,
            "source_commits": [],
            "add_only": True,
        },
        "engines": [{
            "name": "vf", "path": "/verif/vf",
            "serves_properties": [c["property_id"] for c in checks],
            "kind_free_text": "runtime monitors + invariant / twin-differential / reference-model oracles over generated, enumerated and fault-injected workloads of the real code; sharded over worker subprocesses",
        }],
        "checks": checks,
        "not_applicable": na,
        "notes": "Every check runs the current /repo working tree (sys.path[0]=/repo, asserted). Exit 0 held on what was observed (KNOWN-FINDING lines for entries of known_findings.json), 1 VIOLATION, 2 INCONCLUSIVE (watchdog / monitor never reached). VERIF_SEED and VERIF_TIER are honoured.",
    }
    with open(os.path.join(ROOT, "MANIFEST.json"), "w") as f:
        json.dump(man, f, indent=1)
    print("checks:", [c["property_id"] for c in checks], "not_applicable:", [n["property_id"] for n in na])


if __name__ == "__main__":
    main()

#!/venv/bin/python
"""How robust is the detection of each seeded change against the choice of VERIF_SEED?

usage: tools/fragility.py [--seeds 1,2] [--jobs N] [--only ID,..] [--out seeded/fragility.json]

For every seeded change whose patch applies to /repo HEAD, runs the quick tier of the check(s) that the
kill matrix says report it (meta.json: caught_by) under other VERIF_SEED values and records the verdict and
the total number of violating cases seen.  A change that is reported under seed 0 but not under another seed
is caught by luck: the input class that exposes it is too rare in the workload, which is answered by widening
that class (never by special-casing the change).  Nothing is written to meta.json.
"""
import argparse
import concurrent.futures as cf
import json
import os
import subprocess
import sys

ROOT = os.path.dirname(os.path.dirname(os.path.abspath(__file__)))
ST = os.path.join(ROOT, "tools", "seedtest.py")


def one(sid, seed):
    meta = json.load(open(os.path.join(ROOT, "seeded", sid, "meta.json")))
    props = meta.get("caught_by") or [meta["property"]]
    r = subprocess.run([sys.executable, ST, os.path.join(ROOT, "seeded", sid), "--seed", str(seed), "--props", ",".join(props)],
                       capture_output=True, text=True, cwd=ROOT)
    res = None
    for ln in r.stdout.splitlines():
        if ln.startswith("RESULT "):
            res = json.loads(ln[7:])
        if ln.startswith(("PATCH-FAILED", "REVERT-CONFLICT")):
            return sid, seed, "patch-does-not-apply", 0
    if not res:
        return sid, seed, "error", 0
    caught = [p for p in props if res[p]["verdict"] == "VIOLATION"]
    total = sum(sum(res[p]["counts"].values()) for p in caught)
    verdict = "caught" if caught else ("inconclusive" if any(res[p]["verdict"] == "inconclusive" for p in props) else "MISSED")
    return sid, seed, verdict, total


def main():
    ap = argparse.ArgumentParser()
    ap.add_argument("--seeds", default="1,2")
    ap.add_argument("--jobs", type=int, default=2)
    ap.add_argument("--only", default=None)
    ap.add_argument("--out", default=os.path.join(ROOT, "seeded", "fragility.json"))
    a = ap.parse_args()
    ids = sorted(d for d in os.listdir(os.path.join(ROOT, "seeded")) if os.path.exists(os.path.join(ROOT, "seeded", d, "meta.json")))
    ids = [i for i in ids if json.load(open(os.path.join(ROOT, "seeded", i, "meta.json"))).get("matrix", {}).get("on", "").startswith("HEAD")]
    if a.only:
        ids = [i for i in ids if i in a.only.split(",")]
    seeds = [int(s) for s in a.seeds.split(",")]
    out = {}
    with cf.ThreadPoolExecutor(a.jobs) as ex:
        for sid, seed, verdict, total in ex.map(lambda t: one(*t), [(i, s) for i in ids for s in seeds]):
            out.setdefault(sid, {})[str(seed)] = {"verdict": verdict, "violating_cases": total}
            print("%-8s seed=%d %-12s cases=%d" % (sid, seed, verdict, total), flush=True)
            json.dump(out, open(a.out, "w"), indent=1, sort_keys=True)
    bad = sorted(s for s in out if any(v["verdict"] != "caught" for v in out[s].values()))
    print("not caught under some seed: %d of %d: %s" % (len(bad), len(out), " ".join(bad)))
    return 0


if __name__ == "__main__":
    sys.exit(main())

#!/bin/sh
# Runs the repository's own suite (hooks/guard OFF) and prints the summary line.
cd /repo && env -u YAMLPATH_VERIF /venv/bin/python -m pytest -q -p no:cacheprovider --timeout=900 --continue-on-collection-errors "$@" 2>&1 | tail -1

#!/venv/bin/python
"""Runs every seeded change under /verif/seeded through the quick tier of its property's check and
records the outcome in its meta.json (caught_by, mechanisms, how it was run).

usage: tools/seedmatrix.py [--jobs N] [--only ID[,ID..]] [--tier quick|thorough] [--also C02,C15]

For each seed:  tools/seedtest.py seeded/<id>          (change applied to a scratch copy of /repo HEAD)
If that does not apply, or the check holds, the seed is re-run on the commit it was written against
(--base-only, then --at-base): the seed counts as caught there when the patched tree reports mechanisms the
base alone does not, or a mechanism at >= 5x its base count; the demo is then run on HEAD+patch to tell a
miss from a change that a later fix: commit has made harmless.
"""
import argparse
import concurrent.futures as cf
import json
import os
import shutil
import subprocess
import sys

ROOT = os.path.dirname(os.path.dirname(os.path.abspath(__file__)))
ST = os.path.join(ROOT, "tools", "seedtest.py")


def seedtest(sid, extra):
    r = subprocess.run([sys.executable, ST, os.path.join(ROOT, "seeded", sid)] + extra, capture_output=True, text=True, cwd=ROOT)
    res, status = None, "ran"
    for ln in r.stdout.splitlines():
        if ln.startswith("RESULT "):
            res = json.loads(ln[7:])
        if ln.startswith(("PATCH-FAILED", "REVERT-CONFLICT")):
            status = "patch-does-not-apply"
    return status, res


def demo_on_head(sid):
    """exit code of the seed's demo on HEAD + patch (None when the patch does not apply)."""
    d = os.path.join(ROOT, "seeded", sid)
    copy = "/dev/shm/vf-demo-%s-%d" % (sid, os.getpid())
    shutil.rmtree(copy, ignore_errors=True)
    subprocess.run(["rsync", "-a", "--exclude", ".git", "--exclude", "__pycache__", "/repo/", copy + "/"], check=True)
    try:
        patch = os.path.join(d, "patch.head.diff") if os.path.exists(os.path.join(d, "patch.head.diff")) else os.path.join(d, "patch.diff")
        r = subprocess.run(["patch", "-s", "-p1", "-d", copy, "-i", patch], capture_output=True, text=True)
        if r.returncode != 0:
            return None
        demo = next((os.path.join(d, n) for n in ("demo.py", "demo.sh") if os.path.exists(os.path.join(d, n))), None)
        cmd = [sys.executable, demo] if demo.endswith(".py") else ["sh", demo]
        env = dict(os.environ, PYTHONPATH=copy)
        return subprocess.run(cmd, cwd=copy, env=env, capture_output=True, text=True, timeout=600).returncode
    finally:
        shutil.rmtree(copy, ignore_errors=True)


def one(sid, tier, also):
    mp = os.path.join(ROOT, "seeded", sid, "meta.json")
    meta = json.load(open(mp))
    prop = meta["property"]
    props = [prop] + [p for p in also if p != prop]
    extra = ["--tier", tier, "--props", ",".join(props)]
    status, res = seedtest(sid, extra)
    out = {"tier": tier, "ran": ["tools/seedtest.py seeded/%s %s" % (sid, " ".join(extra))]}
    caught = [p for p in props if res and res.get(p, {}).get("verdict") == "VIOLATION"]
    if caught:
        out.update(on="HEAD + patch", caught_by=caught,
                   mechanisms=sorted({m for p in caught for m in res[p]["mechanisms"]})[:12])
    else:
        out["head"] = status if status != "ran" else "check held on HEAD + patch"
        rc = demo_on_head(sid) if status == "ran" else None
        out["demo_on_head_patch_rc"] = rc
        _s, b = seedtest(sid, ["--base-only", "--tier", tier, "--props", prop])
        _s, p = seedtest(sid, ["--at-base", "--tier", tier, "--props", prop])
        out["ran"] += ["tools/seedtest.py seeded/%s --base-only --props %s" % (sid, prop),
                       "tools/seedtest.py seeded/%s --at-base --props %s" % (sid, prop)]
        cb = (b or {}).get(prop, {}).get("counts", {})
        cp = (p or {}).get(prop, {}).get("counts", {})
        new = sorted(m for m in cp if m not in cb)
        surged = sorted(m for m in cp if m in cb and cp[m] >= 5 * max(1, cb[m]))
        if new or surged:
            out.update(on="base commit + patch (compared with the base commit alone)", caught_by=[prop],
                       mechanisms=(new + ["%s (x%d)" % (m, cp[m] // max(1, cb[m])) for m in surged])[:12])
            if rc == 0:
                out["note"] = ("on HEAD the change no longer breaks the property (its demo passes with the patch applied): a later "
                               "fix: commit made it harmless")
            elif rc is None:
                out["note"] = "the patch no longer applies to HEAD (a later fix: commit rewrote those lines)"
        else:
            out.update(on="-", caught_by=[], mechanisms=[])
    meta["matrix"] = out
    meta["caught_by"] = out["caught_by"]
    meta["mechanisms"] = out["mechanisms"]
    json.dump(meta, open(mp, "w"), indent=1)
    return sid, out


def main():
    ap = argparse.ArgumentParser()
    ap.add_argument("--jobs", type=int, default=3)
    ap.add_argument("--only", default=None)
    ap.add_argument("--tier", default="quick")
    ap.add_argument("--also", default="")
    a = ap.parse_args()
    ids = sorted(d for d in os.listdir(os.path.join(ROOT, "seeded")) if os.path.exists(os.path.join(ROOT, "seeded", d, "meta.json")))
    if a.only:
        ids = [i for i in ids if i in a.only.split(",")]
    also = [p for p in a.also.split(",") if p]
    missed = 0
    with cf.ThreadPoolExecutor(a.jobs) as ex:
        for sid, out in ex.map(lambda s: one(s, a.tier, also), ids):
            print("%-6s %-60s %s" % (sid, ",".join(out["caught_by"]) + " @ " + out["on"] if out["caught_by"] else "MISSED (%s)" % out.get("head"),
                                     "; ".join(out["mechanisms"][:3])), flush=True)
            missed += not out["caught_by"]
    print("missed: %d of %d" % (missed, len(ids)))
    return 1 if missed else 0


if __name__ == "__main__":
    sys.exit(main())

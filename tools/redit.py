"""Byte-exact replace in a /repo file preserving its line endings (CRLF files exist in this repo).
usage in python:  from redit import edit; edit('yamlpath/x.py', old, new[, count])"""
import os, sys
def edit(rel, old, new, count=1, root="/repo"):
    p = os.path.join(root, rel)
    b = open(p, "rb").read()
    crlf = b.count(b"\r\n") > b.count(b"\n") // 2
    o, n = old.encode(), new.encode()
    if crlf:
        o = o.replace(b"\r\n", b"\n").replace(b"\n", b"\r\n")
        n = n.replace(b"\r\n", b"\n").replace(b"\n", b"\r\n")
    assert b.count(o) == count, (b.count(o), old)
    open(p, "wb").write(b.replace(o, n))

#!/venv/bin/python
"""Re-resolves the commit hashes of status=fixed entries in known_findings.json by commit subject
(history of /repo fix commits was rewritten to keep each fix one minimal commit)."""
import json, subprocess, sys
def git(*a): return subprocess.run(['git','-C','/repo']+list(a),capture_output=True,text=True).stdout
new={l.split(' ',1)[1]:l.split(' ',1)[0] for l in git('log','--format=%h %s','main').splitlines()}
p='/verif/known_findings.json'
kf=json.load(open(p)); bad=0
for e in kf['findings']:
    if e['status']!='fixed': continue
    subj=e.get('subject')
    if subj not in new:
        print('UNRESOLVED',e['commit'],subj); bad+=1; continue
    old=e['commit']; e['commit']=new[subj]; e['line']=e['line'].replace(old,new[subj])
json.dump(kf,open(p,'w'),indent=1)
print('fixed entries:',sum(1 for e in kf['findings'] if e['status']=='fixed'),'unresolved:',bad)

#!/venv/bin/python
"""Run checks against a seeded breaking change without touching /repo.

usage: tools/seedtest.py <seeded dir or patch.diff> [--props C03,C04 | --all] [--tier quick] [--seed N]

Copies /repo's working tree to /dev/shm/vf-mut-<pid>, applies the patch there, runs the selected
checks with VERIF_REPO pointing at the copy and VF_OUT at a scratch directory (so /verif/evidence is
not overwritten), prints one line per check, removes the copy.
"""
import argparse, json, os, shutil, subprocess, sys, time

ROOT = os.path.dirname(os.path.dirname(os.path.abspath(__file__)))


def main():
    ap = argparse.ArgumentParser()
    ap.add_argument("target")
    ap.add_argument("--props", default=None)
    ap.add_argument("--all", action="store_true")
    ap.add_argument("--tier", default="quick")
    ap.add_argument("--seed", default="0")
    ap.add_argument("--keep", action="store_true")
    ap.add_argument("--at-base", action="store_true", help="apply the patch to the commit the seed was written against")
    ap.add_argument("--base-only", action="store_true", help="run on that base commit without the patch")
    a = ap.parse_args()
    patch = a.target if a.target.endswith(".diff") else os.path.join(a.target, "patch.diff")
    if not a.target.endswith(".diff") and not (a.at_base or a.base_only) and os.path.exists(os.path.join(a.target, "patch.head.diff")):
        patch = os.path.join(a.target, "patch.head.diff")    # the same change re-made on the current tree (a later fix: touched its lines)
    meta = {}
    mp = os.path.join(os.path.dirname(patch), "meta.json")
    if os.path.exists(mp):
        meta = json.load(open(mp))
    props = (a.props.split(",") if a.props else ["C%02d" % i for i in range(1, 20)] if a.all else [meta.get("property")])
    props = [p for p in props if p]
    copy = "/dev/shm/vf-mut-%d" % os.getpid()
    out = "/dev/shm/vf-mut-out-%d" % os.getpid()
    shutil.rmtree(copy, ignore_errors=True)
    if meta.get("commit") and not meta.get("source"):
        # a reversed fix: let git do the revert in a scratch worktree (handles CRLF files and later edits nearby)
        subprocess.run(["git", "-C", "/repo", "worktree", "add", "-q", "--detach", copy, "HEAD"], check=True)
        r = subprocess.run(["git", "-C", copy, "revert", "--no-commit", meta["commit"]], capture_output=True, text=True)
        if r.returncode != 0:
            print("REVERT-CONFLICT", r.stderr[-200:].replace("\n", " "))
            subprocess.run(["git", "-C", "/repo", "worktree", "remove", "--force", copy])
            return 3
    elif a.at_base or a.base_only:
        # the tree the seed was written against (later fix: commits can neutralise a seeded change); the verdict of
        # interest is then the set of mechanisms reported with the patch that the base alone does not report
        subprocess.run(["git", "-C", "/repo", "worktree", "add", "-q", "--detach", copy, meta["base_commit"]], check=True)
        if not a.base_only:
            r = subprocess.run(["git", "-C", copy, "apply", os.path.abspath(patch)], capture_output=True, text=True)
            if r.returncode != 0:
                print("PATCH-FAILED", r.stderr[-300:])
                subprocess.run(["git", "-C", "/repo", "worktree", "remove", "--force", copy])
                return 3
    else:
        subprocess.run(["rsync", "-a", "--exclude", ".git", "--exclude", "__pycache__", "/repo/", copy + "/"], check=True)
        r = subprocess.run(["git", "apply", "--unsafe-paths", "--directory", copy, os.path.abspath(patch)], cwd="/", capture_output=True, text=True)
        if r.returncode != 0:
            r = subprocess.run(["patch", "-p1", "-d", copy, "-i", os.path.abspath(patch)], capture_output=True, text=True)
            if r.returncode != 0:
                print("PATCH-FAILED", r.stdout[-300:], r.stderr[-300:])
                shutil.rmtree(copy, ignore_errors=True)
                return 3
    results = {}
    for p in props:
        env = dict(os.environ, VERIF_REPO=copy, VF_OUT=out, VERIF_SEED=a.seed)
        t0 = time.time()
        pr = subprocess.run([sys.executable, "-m", "vf.run", p, "--tier", a.tier], cwd=ROOT, env=env, capture_output=True, text=True)
        lines = [l for l in pr.stdout.splitlines() if l.startswith(("VIOLATION", "  mechanism", "INCONCLUSIVE", "KNOWN"))]
        verdict = {0: "held", 1: "VIOLATION", 2: "inconclusive"}.get(pr.returncode, "rc=%d" % pr.returncode)
        mechs = [l.split("mechanism=")[1].split(" count=")[0] for l in lines if "mechanism=" in l and "KNOWN" not in l]
        results[p] = {"verdict": verdict, "mechanisms": mechs, "counts": {l.split("mechanism=")[1].split(" count=")[0]: int(l.split(" count=")[1].split()[0]) for l in lines if "mechanism=" in l and "KNOWN" not in l}, "wall_s": round(time.time() - t0, 1)}
        print("%s %-12s %5.1fs %s" % (p, verdict, time.time() - t0, "; ".join(mechs[:4])))
        if pr.returncode not in (0, 1, 2):
            print(pr.stderr[-500:])
    if not a.keep:
        if os.path.exists(os.path.join(copy, ".git")):
            subprocess.run(["git", "-C", "/repo", "worktree", "remove", "--force", copy])
        shutil.rmtree(copy, ignore_errors=True)
        shutil.rmtree(out, ignore_errors=True)
    print("RESULT " + json.dumps(results))
    return 0


if __name__ == "__main__":
    sys.exit(main())

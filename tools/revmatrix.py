#!/venv/bin/python
"""Kill matrix over the reversed fix: commits.

For every status=fixed entry of known_findings.json the fix is taken out again and the quick tier of
that property's check must report a violation:

  (1) `git revert --no-commit <commit>` in a scratch worktree of /repo HEAD (the realistic mutant: today's
      tree minus that one repair);
  (2) when the revert conflicts with later edits, the pair of historical trees <commit>^ and <commit> is
      used instead: the check must report at <commit>^ a mechanism it no longer reports at <commit>.

Results go to /verif/seeded/reverse-fixes.json (committed) and into DESIGN.md via gen_design_tables.py.
usage: tools/revmatrix.py [--jobs N] [--only <commit>[,..]]
"""
import argparse
import concurrent.futures as cf
import json
import os
import shutil
import subprocess
import sys

ROOT = os.path.dirname(os.path.dirname(os.path.abspath(__file__)))


def git(*a, cwd="/repo"):
    return subprocess.run(["git", "-C", cwd] + list(a), capture_output=True, text=True)


def run_check(prop, tree, tag):
    out = "/dev/shm/vf-rev-out-%s" % tag
    env = dict(os.environ, VERIF_REPO=tree, VF_OUT=out, VERIF_SEED="0")
    pr = subprocess.run([sys.executable, "-m", "vf.run", prop, "--tier", "quick"], cwd=ROOT, env=env, capture_output=True, text=True)
    counts = {}
    for l in pr.stdout.splitlines():
        if "mechanism=" in l and not l.startswith("KNOWN"):
            counts[l.split("mechanism=")[1].split(" count=")[0]] = int(l.split(" count=")[1].split()[0])
    shutil.rmtree(out, ignore_errors=True)
    return {0: "held", 1: "VIOLATION", 2: "inconclusive"}.get(pr.returncode, "rc=%d" % pr.returncode), counts


def worktree(tag, rev):
    wt = "/dev/shm/vf-rev-%s" % tag
    git("worktree", "remove", "--force", wt)
    shutil.rmtree(wt, ignore_errors=True)
    r = git("worktree", "add", "-q", "--detach", wt, rev)
    if r.returncode != 0:
        raise RuntimeError(r.stderr)
    return wt


def drop(wt):
    git("worktree", "remove", "--force", wt)
    shutil.rmtree(wt, ignore_errors=True)


def one(e):
    c, prop = e["commit"], e["property"]
    rec = {"commit": c, "property": prop, "subject": e.get("subject", ""), "expected_mechanism": e.get("mechanism")}
    props = [prop] + list(e.get("also_checked_by", []))
    hand = os.path.join(ROOT, "seeded", "rev-" + c, "patch.diff")
    wt = worktree(c + "-head", "HEAD")
    try:
        if os.path.exists(hand):
            # the reversal re-made by hand on HEAD (git cannot revert it: CRLF file or later edits on the same lines)
            r = subprocess.run(["patch", "-s", "-p1", "-d", wt, "-i", hand], capture_output=True, text=True)
            how = "HEAD with the fix taken out by hand (seeded/rev-%s/patch.diff)" % c
        else:
            r = git("revert", "--no-commit", c, cwd=wt)
            how = "HEAD with the fix reverted"
        if r.returncode == 0:
            for pr in props:
                verdict, counts = run_check(pr, wt, c + "-head")
                if verdict == "VIOLATION":
                    rec.update(how=how, verdict=verdict, mechanisms=sorted(counts)[:10], caught=True, caught_by=pr)
                    return rec
            rec.update(how=how, verdict=verdict, mechanisms=[], caught=False)
            if verdict == "inconclusive":
                return rec
            rec["head_revert_note"] = "check held on HEAD minus this fix (a later fix may cover the same input); historical pair used"
        else:
            rec["head_revert_note"] = "revert conflicts with later edits; historical pair used"
    finally:
        drop(wt)
    a = worktree(c + "-before", c + "^")
    try:
        v0, c0 = run_check(prop, a, c + "-before")
    finally:
        drop(a)
    b = worktree(c + "-after", c)
    try:
        v1, c1 = run_check(prop, b, c + "-after")
    finally:
        drop(b)
    gone = sorted(m for m in c0 if m not in c1)
    fell = sorted(m for m in c0 if m in c1 and c0[m] >= 5 * max(1, c1[m]))
    rec.update(how="tree before the fix vs tree with it", verdict="%s -> %s" % (v0, v1),
               mechanisms=(gone + ["%s (%d -> %d)" % (m, c0[m], c1[m]) for m in fell])[:10], caught=bool(gone or fell) and v0 == "VIOLATION",
               caught_by=prop)
    return rec


def main():
    ap = argparse.ArgumentParser()
    ap.add_argument("--jobs", type=int, default=3)
    ap.add_argument("--only", default=None)
    a = ap.parse_args()
    kf = [e for e in json.load(open(os.path.join(ROOT, "known_findings.json")))["findings"] if e["status"] == "fixed"]
    if a.only:
        kf = [e for e in kf if e["commit"] in a.only.split(",")]
    dst = os.path.join(ROOT, "seeded", "reverse-fixes.json")
    have = {}
    if a.only and os.path.exists(dst):
        have = {r["commit"]: r for r in json.load(open(dst))["results"]}
    with cf.ThreadPoolExecutor(a.jobs) as ex:
        for rec in ex.map(one, kf):
            have[rec["commit"]] = rec
            print("%s %s %-7s %-38s %s" % (rec["commit"], rec["property"], "CAUGHT" if rec["caught"] else "MISSED", rec["how"],
                                           "; ".join(rec["mechanisms"][:3])), flush=True)
    order = [e["commit"] for e in json.load(open(os.path.join(ROOT, "known_findings.json")))["findings"] if e["status"] == "fixed"]
    res = [have[c] for c in order if c in have]
    json.dump({"comment": "written by tools/revmatrix.py; quick tier, seed 0", "results": res}, open(dst, "w"), indent=1)
    missed = [r["commit"] for r in res if not r["caught"]]
    print("missed: %d of %d %s" % (len(missed), len(res), missed))
    return 1 if missed else 0


if __name__ == "__main__":
    sys.exit(main())

#!/venv/bin/python
"""Regenerates the machine-written tables of DESIGN.md (between marker comments) from
known_findings.json and seeded/*/meta.json."""
import glob, json, os, re
ROOT = os.path.dirname(os.path.dirname(os.path.abspath(__file__)))


def findings_table():
    kf = json.load(open(os.path.join(ROOT, "known_findings.json")))["findings"]
    rows = ["| # | property | status | commit / mechanism | what failed on the pinned tree |", "|---|---|---|---|---|"]
    for i, e in enumerate(kf, 1):
        if e["status"] == "fixed":
            what = e["line"].split(e["commit"], 1)[1].strip()
            rows.append("| %d | %s | fixed | `%s` %s | %s |" % (i, e["property"], e["commit"], e.get("subject", "")[5:70], what.replace("|", "\\|")))
        else:
            rows.append("| %d | %s | **known** | mechanism `%s` | %s |" % (i, e["property"], e["mechanism"], e["what"].replace("|", "\\|")))
    return "\n".join(rows)


def seeded_table():
    rows = ["| seeded change | breaks | needs, to manifest | caught by (quick tier) | mechanisms reported |", "|---|---|---|---|---|"]
    for mp in sorted(glob.glob(os.path.join(ROOT, "seeded", "*", "meta.json"))):
        m = json.load(open(mp))
        caught = ", ".join(m.get("caught_by", [])) or "**missed**"
        rows.append("| `%s` | %s | %s | %s | %s |" % (os.path.basename(os.path.dirname(mp)), m.get("property"), m.get("needs", "").replace("|", "\\|")[:160],
                                               caught, "; ".join(m.get("mechanisms", [])[:3]).replace("|", "\\|")[:160]))
    return "\n".join(rows)


def main():
    p = os.path.join(ROOT, "DESIGN.md")
    s = open(p).read()
    for name, fn in (("FINDINGS", findings_table), ("SEEDED", seeded_table)):
        b, e = "<!-- %s-TABLE-BEGIN -->" % name, "<!-- %s-TABLE-END -->" % name
        if b in s and e in s:
            s = s[:s.index(b) + len(b)] + "\n" + fn() + "\n" + s[s.index(e):]
    open(p, "w").write(s)


main()

#!/venv/bin/python
"""Regenerates the machine-written tables of DESIGN.md (between marker comments) from
known_findings.json and seeded/*/meta.json."""
import glob, json, os, re
ROOT = os.path.dirname(os.path.dirname(os.path.abspath(__file__)))


def findings_table():
    kf = json.load(open(os.path.join(ROOT, "known_findings.json")))["findings"]
    rows = ["| # | property | status | commit / mechanism | what failed on the pinned tree |", "|---|---|---|---|---|"]
    for i, e in enumerate(kf, 1):
        if e["status"] == "fixed":
            what = e["line"].split(e["commit"], 1)[1].strip()
            rows.append("| %d | %s | fixed | `%s` %s | %s |" % (i, e["property"], e["commit"], e.get("subject", "")[5:70], what.replace("|", "\\|")))
        else:
            rows.append("| %d | %s | **known** | mechanism `%s` | %s |" % (i, e["property"], e["mechanism"], e["what"].replace("|", "\\|")))
    return "\n".join(rows)


def seeded_table():
    rows = ["| seeded change | what was changed | first run | caught by (quick tier) | mechanisms reported | what the miss led to |", "|---|---|---|---|---|---|"]
    for mp in sorted(glob.glob(os.path.join(ROOT, "seeded", "*", "meta.json"))):
        m = json.load(open(mp))
        mx = m.get("matrix", {})
        caught = ", ".join(m.get("caught_by", [])) or "**missed**"
        if mx.get("on", "").startswith("base"):
            caught += " (on the commit it was written against; " + ("harmless on HEAD after a later fix" if mx.get("demo_on_head_patch_rc") == 0 else "no longer applies to HEAD") + ")"
        rows.append("| `%s` | %s | %s | %s | %s | %s |" % (
            os.path.basename(os.path.dirname(mp)), m.get("title", "").replace("|", "\\|")[:150], m.get("first_run", ""), caught,
            "; ".join(m.get("mechanisms", [])[:3]).replace("|", "\\|")[:140], m.get("strengthened", "").replace("|", "\\|")))
    return "\n".join(rows)


def revfix_table():
    p = os.path.join(ROOT, "seeded", "reverse-fixes.json")
    if not os.path.exists(p):
        return "(not run yet)"
    res = json.load(open(p))["results"]
    rows = ["| fix taken out | property | how | verdict | mechanisms reported (that go away with the fix) |", "|---|---|---|---|---|"]
    for r in res:
        rows.append("| `%s` %s | %s | %s | %s | %s |" % (r["commit"], r.get("subject", "")[5:75].replace("|", "\\|"), r["property"], r["how"],
                                                  ("caught" if r["caught"] else "**missed**") + " (%s)" % r["verdict"],
                                                  "; ".join(r["mechanisms"][:3]).replace("|", "\\|")[:150]))
    rows.append("")
    rows.append("%d of %d reversed fixes reported." % (sum(1 for r in res if r["caught"]), len(res)))
    return "\n".join(rows)


def main():
    p = os.path.join(ROOT, "DESIGN.md")
    s = open(p).read()
    for name, fn in (("FINDINGS", findings_table), ("SEEDED", seeded_table), ("REVFIX", revfix_table)):
        b, e = "<!-- %s-TABLE-BEGIN -->" % name, "<!-- %s-TABLE-END -->" % name
        if b in s and e in s:
            s = s[:s.index(b) + len(b)] + "\n" + fn() + "\n" + s[s.index(e):]
    open(p, "w").write(s)


main()

#!/venv/bin/python
"""Verify a sub-agent's seeded change in its worktree and import it into /verif/seeded/<id>/.

usage: tools/verify_seed.py <worktree> <a|b> <property> <id>
Checks: patch applies; demo exits 1 with it and 0 without; the repository's suite summary is unchanged.
"""
import json, os, shutil, subprocess, sys

BASE = "1 failed, 988 passed, 19 skipped, 1 xfailed, 313 errors"


def sh(cmd, cwd, env=None, timeout=1200):
    return subprocess.run(cmd, cwd=cwd, shell=True, capture_output=True, text=True, timeout=timeout, env=env)


def main():
    wt, x, prop, sid = sys.argv[1:5]
    sdir = os.path.join(wt, "seed", x)
    env = dict(os.environ, PYTHONPATH=wt)
    sh("git checkout -- yamlpath", wt)
    r0 = sh("/venv/bin/python seed/%s/demo.py" % x, wt, env)
    ap = sh("git apply seed/%s/patch.diff" % x, wt)
    if ap.returncode != 0:
        print("APPLY-FAILED", ap.stderr[-300:]); return 2
    r1 = sh("/venv/bin/python seed/%s/demo.py" % x, wt, env)
    t = sh("/venv/bin/python -m pytest -q -p no:cacheprovider --timeout=900 --continue-on-collection-errors 2>&1 | tail -1", wt, env)
    sh("git checkout -- yamlpath", wt)
    suite = t.stdout.strip().split(" in ")[0]
    ok = r0.returncode == 0 and r1.returncode == 1 and suite == BASE
    print("demo clean rc=%d patched rc=%d suite=%r -> %s" % (r0.returncode, r1.returncode, suite, "CONFIRMED" if ok else "REJECTED"))
    if not ok:
        print(r1.stdout[-400:], r1.stderr[-400:])
        return 1
    dst = os.path.join("/verif/seeded", sid)
    os.makedirs(dst, exist_ok=True)
    for fn in ("patch.diff", "demo.py", "notes.md"):
        shutil.copy(os.path.join(sdir, fn), os.path.join(dst, fn))
    notes = open(os.path.join(sdir, "notes.md")).read()
    meta = {"property": prop, "source": "independent sub-agent (given only the property text and its own worktree)",
            "base_commit": sh("git rev-parse HEAD", wt).stdout.strip(),
            "needs": " ".join(notes.split())[:400],
            "verified": {"demo_clean_rc": r0.returncode, "demo_patched_rc": r1.returncode, "suite_with_patch": suite,
                         "commands": ["git apply patch.diff", "PYTHONPATH=<worktree> /venv/bin/python seed/%s/demo.py" % x,
                                      "PYTHONPATH=<worktree> /venv/bin/python -m pytest -q -p no:cacheprovider --timeout=900 --continue-on-collection-errors"]}}
    json.dump(meta, open(os.path.join(dst, "meta.json"), "w"), indent=1)
    return 0


sys.exit(main())

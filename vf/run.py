"""Entry point:  python -m vf.run <ID> --tier quick|thorough [--replay FILE]

Honours VERIF_SEED and VERIF_TIER.  Exit 0 held / 1 violation / 2 inconclusive.
"""
import argparse
import os
import sys


def main():
    ap = argparse.ArgumentParser()
    ap.add_argument("prop")
    ap.add_argument("--tier", default=None)
    ap.add_argument("--seed", type=int, default=None)
    ap.add_argument("--replay", default=None)
    ap.add_argument("--worker", action="store_true")
    ap.add_argument("--shard", type=int, default=0)
    ap.add_argument("--nshards", type=int, default=None)
    ap.add_argument("--out", default=None)
    ap.add_argument("--watchdog", type=int, default=1500)
    a = ap.parse_args()
    tier = a.tier or os.environ.get("VERIF_TIER") or "quick"
    if tier not in ("quick", "thorough"):
        tier = "quick"
    seed = a.seed if a.seed is not None else int(os.environ.get("VERIF_SEED", "0") or 0)
    from vf.core import harness
    if a.worker:
        harness.worker_main(a.prop, tier, seed, a.shard, a.nshards, a.out, a.watchdog)
        return 0
    if a.replay:
        return harness.replay(a.prop, a.replay)
    return harness.coordinator(a.prop, tier, seed, a.nshards)


if __name__ == "__main__":
    try:
        rc = main()
    except SystemExit:
        raise
    except BaseException as e:      # the machinery itself failed: never a verdict about the property
        import traceback
        traceback.print_exc()
        print("INCONCLUSIVE property=%s reason=harness failure %s: %s" % (
            sys.argv[1] if len(sys.argv) > 1 else "?", type(e).__name__, str(e)[:200]))
        rc = 2
    sys.exit(rc)

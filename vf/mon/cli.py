"""In-process launcher for the console entry points, with the file-system audit monitor.

run(tool, argv, stdin_text=None, fault=None) calls yamlpath.commands.<tool>.main()
with a fresh sys.argv / stdin / stdout / stderr and returns
    {"code": int, "out": str, "err": str, "exc": str|None, "trace": [...]}

The audit hook (sys.addaudithook, installed once per process) records every
file-system intent on paths under the armed sandbox directory:
    open(path, mode) / os.remove / os.rename / os.truncate / shutil.copyfile /
    shutil.copymode / shutil.copystat / os.mkdir
and can inject a single fault: fault={"at": k, "kind": "oserror"|"kill"} raises
OSError(EIO) from (or os._exit(137) at) the k-th recorded event.  Write-side
faults inside a file being written are injected by wrapping the opened file
object (fault={"write_after": nbytes, "path": basename}).
"""
import builtins
import importlib
import io
import os
import sys

_state = {"armed": False, "sandbox": None, "trace": [], "n": 0, "fault": None, "installed": False}
WRITE_EVENTS = ("os.remove", "os.rename", "os.truncate", "shutil.copyfile", "shutil.copymode", "shutil.copystat",
                "os.mkdir", "os.unlink", "os.rmdir", "shutil.move")


def _hook(ev, args):
    st = _state
    if not st["armed"]:
        return
    if ev != "open" and ev not in WRITE_EVENTS:
        return
    a0 = args[0] if args else None
    p = a0 if isinstance(a0, str) else (os.fsdecode(a0) if isinstance(a0, bytes) else None)
    if p is None:
        return
    ap = os.path.abspath(p)
    sb = st["sandbox"]
    if not ap.startswith(sb + os.sep) and ap != sb:
        return
    rec = {"ev": ev, "path": os.path.relpath(ap, sb)}
    if ev == "open":
        mode = args[1] if len(args) > 1 else None
        flags = args[2] if len(args) > 2 else 0
        writing = (isinstance(mode, str) and any(c in mode for c in "wax+")) or (
            isinstance(flags, int) and flags & (os.O_WRONLY | os.O_RDWR | os.O_CREAT | os.O_TRUNC))
        rec["mode"] = mode
        rec["write"] = bool(writing)
    elif len(args) > 1 and isinstance(args[1], (str, bytes)):
        rec["dst"] = os.path.relpath(os.path.abspath(os.fsdecode(args[1])), sb)
    st["n"] += 1
    rec["k"] = st["n"]
    st["trace"].append(rec)
    f = st["fault"]
    if f and f.get("at") == st["n"]:
        st["trace"].append({"ev": "FAULT", "k": st["n"], "kind": f.get("kind", "oserror")})
        if f.get("kind") == "kill":
            sys.stdout.flush()
            os._exit(137)
        raise OSError(5, "injected I/O error (vf failpoint)")


def install():
    if not _state["installed"]:
        sys.addaudithook(_hook)
        _state["installed"] = True


class _FaultyWriter(io.TextIOWrapper):
    pass


def run(tool, argv, stdin_text=None, sandbox=None, fault=None):
    install()
    mod = importlib.import_module("yamlpath.commands." + tool)
    old = sys.argv, sys.stdin, sys.stdout, sys.stderr
    out, err = io.StringIO(), io.StringIO()
    sys.argv = [tool.replace("_", "-")] + list(argv)

    class _In(io.StringIO):
        def isatty(self):
            return False
    sys.stdin = _In(stdin_text) if stdin_text is not None else _Tty()
    sys.stdout, sys.stderr = out, err
    st = _state
    st.update(armed=sandbox is not None, sandbox=os.path.abspath(sandbox) if sandbox else None, trace=[], n=0, fault=fault)
    code, exc = 0, None
    real_open = builtins.open
    if fault and "write_after" in fault:
        builtins.open = _make_faulty_open(real_open, fault)
    import warnings
    import yamlpath.common.parsers as _parsers
    old_parsers_stdin = _parsers.stdin
    _parsers.stdin = sys.stdin          # parsers.py binds sys.stdin at import time
    saved_filters = warnings.filters[:]
    warnings.resetwarnings()            # every run starts from the interpreter's default filters,
    warnings.simplefilter("default")    # as a fresh process would
    try:
        mod.main()
    except SystemExit as e:
        code = e.code if isinstance(e.code, int) else (0 if e.code is None else 1)
    except BaseException as e:       # an exception escaping main() is a crash of the tool
        exc = "%s: %s" % (type(e).__name__, e)
        code = -1
    finally:
        warnings.filters[:] = saved_filters
        _parsers.stdin = old_parsers_stdin
        builtins.open = real_open
        st["armed"] = False
        sys.argv, sys.stdin, sys.stdout, sys.stderr = old
    return {"code": code, "out": out.getvalue(), "err": err.getvalue(), "exc": exc, "trace": list(st["trace"])}


class _Tty(io.StringIO):
    """A stdin that claims to be a terminal: tools must not wait on it."""

    def isatty(self):
        return True


def _make_faulty_open(real_open, fault):
    target = fault.get("path")
    limit = fault["write_after"]

    used = []

    def faulty_open(file, mode="r", *a, **kw):
        f = real_open(file, mode, *a, **kw)
        if used and fault.get("exc") == "assertion":
            return f            # a single fault: the handle through which a tool restores the file is not faulted
        try:
            name = os.path.basename(os.fsdecode(file)) if isinstance(file, (str, bytes)) else None
        except Exception:
            name = None
        if name == target and any(c in mode for c in "wa"):
            used.append(1)
            return _LimitedWriter(f, limit, fault.get("exc", "oserror"))
        return f
    return faulty_open


class _LimitedWriter:
    """Proxy that lets `limit` characters through and then fails like a full disk."""

    def __init__(self, f, limit, exc="oserror"):
        self._f, self._left, self._exc, self._spent = f, limit, exc, False

    def write(self, s):
        if len(s) > self._left and not self._spent:
            self._f.write(s[:self._left])
            self._left = 0
            self._spent = True          # a single fault: later writes through this handle (none expected) pass
            if self._exc == "assertion":
                # the serializer gives up part-way (what ruamel's emitter does on an inconsistent event stream): the
                # text produced so far is still in this handle's BUFFER, exactly as in a real run
                _state["trace"].append({"ev": "FAULT", "kind": "write-assertion", "after": "partial, unflushed"})
                raise AssertionError("injected serializer failure (vf failpoint)")
            self._f.flush()
            _state["trace"].append({"ev": "FAULT", "kind": "write", "after": "partial"})
            raise OSError(28, "injected ENOSPC (vf failpoint)")
        self._left -= len(s)
        return self._f.write(s)

    def __getattr__(self, name):
        return getattr(self._f, name)

    def __enter__(self):
        return self

    def __exit__(self, *a):
        return self._f.__exit__(*a)

    def __iter__(self):
        return iter(self._f)

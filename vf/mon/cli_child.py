"""Child-process form of vf.mon.cli.run, for faults that kill the process.

usage:  python -m vf.mon.cli_child '<json spec>'
spec = {"tool": ..., "argv": [...], "sandbox": dir, "fault": {...}|null, "stdin": str|null, "env": {..}}
Prints one JSON line with the result (unless killed by the injected fault).
"""
import json
import os
import sys


def main():
    spec = json.loads(sys.argv[1])
    for k, v in (spec.get("env") or {}).items():
        os.environ[k] = v
    from vf.core import yp  # noqa: F401  (puts the repository under test first on sys.path)
    from vf.mon import cli
    r = cli.run(spec["tool"], spec["argv"], stdin_text=spec.get("stdin"), sandbox=spec.get("sandbox"),
                fault=spec.get("fault"))
    sys.__stdout__.write(json.dumps(r) + "\n")


if __name__ == "__main__":
    main()

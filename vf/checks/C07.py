"""C07 — yaml-paths search is sound and complete, and every printed path resolves.

Brute-force oracle over every leaf / key / set-member position with the C12
reference comparator (three-valued), first-occurrence bookkeeping of anchors
in document order for "aliased repeats", and re-resolution of every reported
path through Processor.get_nodes in the notation it was printed in.
"""
import os
import sys
from types import SimpleNamespace

from vf.core import yp
from vf.core.yp import Processor, YAMLPath, YAMLPathException, PathSeparators, LOG
from vf.gen import docs as gd
from vf.gen import paths as gp
from vf.model import cmp as CM
from vf.mon import cli
from yamlpath.commands import yaml_paths
from yamlpath.eyaml import EYAMLProcessor
from yamlpath.common import Anchors
from yamlpath.path import SearchTerms
from yamlpath.enums import PathSearchMethods, PathSegmentTypes

PROPERTY = "C07"
LEVEL = "exploration"
RULE = ("documents (regimes N/U without anchors; regime A with scalar anchors aliased under keys and in sequences; a few "
        "with YAML merge keys) x expressions (9 operators x inversion x terms drawn from present values, key names, "
        "prefixes, numbers, regexes) x {values, +keys, keys-only} x alias modes {anchors-only, key aliases, value aliases, "
        "all} x expand on/off x {dot, slash}; through search_for_paths (all cases) and the yaml-paths entry point (a "
        "sample, stdout parsed). Non-trivial = the expression must match >=1 position; distinct by (document, expression, options)")
ASSUMPTIONS = ["descendants of a matched key may or may not be reported (hidden unless --expand)",
               "a !!set nested directly in a sequence is reported by the tool as one opaque value: such documents are not generated",
               "merge-key documents are judged for soundness and re-resolution only; --refnames and --decrypt are not exercised here",
               "comparator cells the documentation leaves open are unspecified (either answer accepted)"]
REACH = [("yamlpath/commands/yaml_paths.py", "search_for_paths,yield_children", "yaml_paths.search_for_paths / yield_children"),
         ("yamlpath/commands/yaml_paths.py", "process_yaml_file,print_results,get_search_term", "yaml_paths CLI glue"),
         ("yamlpath/common/searches.py", "search_anchor", "Searches.search_anchor")]
SIZES = {"quick": dict(lib=200000, cli=800), "thorough": dict(lib=1200000, cli=3000)}
REQUIRED_COUNTERS = ["multi_document_cases", "lib_cases", "cli_cases", "resolved_paths", "anchor_docs", "expand_cases", "cli_escaped_terms", "multi_expression_subprocess_cases", "cli_route_dash", "cli_route_implicit", "docs_with_negative_integer_keys"]
OPS = {"=": PathSearchMethods.EQUALS, "^": PathSearchMethods.STARTS_WITH, "$": PathSearchMethods.ENDS_WITH,
       "%": PathSearchMethods.CONTAINS, ">": PathSearchMethods.GREATER_THAN, "<": PathSearchMethods.LESS_THAN,
       ">=": PathSearchMethods.GREATER_THAN_OR_EQUAL, "<=": PathSearchMethods.LESS_THAN_OR_EQUAL,
       "=~": PathSearchMethods.REGEX}
ALIAS_MODES = {"A": (False, False), "Y": (True, False), "y": (False, True), "l": (True, True)}
ANCHORS_ONLY = "A"


def decide(op, term, inv, value):
    if yp.is_container(value):
        return None
    try:
        m = CM.decide(op, value, term)
    except Exception:
        return None
    if m is None:
        return None
    return (not m) if inv else m


class Pos:
    __slots__ = ("parent", "ref", "node", "verdict", "why")

    def __init__(self, parent, ref, node, verdict, why):
        self.parent, self.ref, self.node, self.verdict, self.why = parent, ref, node, verdict, why

    def key(self):
        return (id(self.parent), repr(self.ref) if not yp.is_set(self.parent) else repr(str(self.ref)))


def expected_positions(data, op, term, inv, search_values, search_keys, inc_key_alias, inc_val_alias, expand):
    """Every candidate position with verdict True (must be reported) / False (must not) / None (either)."""
    out = []
    seen_true = set()        # anchors in true document order
    seen_visible = set()     # anchors met by a traversal that does not enter hidden (key-matched) subtrees

    def leaf_verdict(node, visible=True):
        """Alias bookkeeping for a scalar leaf: False original, True aliased repeat, None ambiguous
        (its first occurrence lies in a subtree the tool may not have entered)."""
        a = yp.anchor_of(node)
        if a is None:
            return False
        if a in seen_true:
            if visible:
                amb = a not in seen_visible
                seen_visible.add(a)
                return None if amb else True
            return True
        seen_true.add(a)
        if visible:
            seen_visible.add(a)
        return False

    def emit_leaves(n, parent, ref, hidden):
        """--expand: every leaf below a matched node."""
        if isinstance(n, dict):
            for k, v in n.items():
                emit_leaves(v, n, k, hidden)
        elif isinstance(n, list) and not yp.is_set(n):
            for i, e in enumerate(n):
                emit_leaves(e, n, i, hidden)
        elif yp.is_set(n):
            out.append(Pos(parent, ref, n, None, "set-under-expand"))
        else:
            rep = leaf_verdict(n, visible=not hidden)
            if rep is None and not inc_val_alias:
                out.append(Pos(parent, ref, n, None, "ambiguous-alias-under-expand"))
            elif rep and not inc_val_alias:
                out.append(Pos(parent, ref, n, False if not hidden else None, "alias-repeat-under-expand"))
            else:
                out.append(Pos(parent, ref, n, None if hidden else True, "leaf-under-expand"))

    def walk(n, hidden):
        """hidden: below a node whose own reporting is unspecified/hidden -> verdicts degrade to None."""
        if isinstance(n, dict):
            for k, v in n.items():
                kv = decide(op, term, inv, k) if search_keys else False
                if kv is True or kv is None:
                    sure = (kv is True) and not hidden
                    if expand and not (isinstance(v, (dict, list)) or yp.is_set(v)):
                        # a matched key holding a scalar is its own only leaf (alias filters concern descendants)
                        leaf_verdict(v, visible=not hidden)
                        out.append(Pos(n, k, v, True if sure else None, "key-scalar-under-expand"))
                        if not sure:
                            walk_value(n, k, v, True)
                    elif expand:
                        emit_leaves(v, n, k, hidden or not sure)
                        if not sure:
                            # the key may also not have matched: then the ordinary walk applies; everything maybe
                            walk_value(n, k, v, True)
                    else:
                        out.append(Pos(n, k, v, True if sure else None, "key"))
                        # descendants hidden: may or may not appear
                        walk_value(n, k, v, True, as_hidden_subtree=True)
                    continue
                walk_value(n, k, v, hidden)
        elif isinstance(n, list) and not yp.is_set(n):
            for i, e in enumerate(n):
                walk_value(n, i, e, hidden)
        elif yp.is_set(n):
            for m in n:
                v = decide(op, term, inv, m)
                out.append(Pos(n, m, m, None if hidden else v, "set-member"))

    def walk_value(parent, ref, v, hidden, as_hidden_subtree=False):
        if isinstance(v, (dict, list)) or yp.is_set(v):
            walk(v, hidden)
            return
        rep = leaf_verdict(v, visible=not (hidden or as_hidden_subtree))
        if as_hidden_subtree:
            return
        if rep is None and not inc_val_alias:
            out.append(Pos(parent, ref, v, None, "ambiguous-alias"))
            return
        if not search_values:
            out.append(Pos(parent, ref, v, False if not hidden else None, "value-not-searched"))
            return
        if rep and not inc_val_alias:
            out.append(Pos(parent, ref, v, False if not hidden else None, "alias-repeat"))
            return
        d = decide(op, term, inv, v)
        out.append(Pos(parent, ref, v, None if hidden else d, "value"))
    if isinstance(data, (dict, list)) or yp.is_set(data):
        walk(data, False)
    return out


def has_set_in_list(n):
    if isinstance(n, list) and not yp.is_set(n):
        return any(yp.is_set(e) or has_set_in_list(e) for e in n)
    if isinstance(n, dict):
        return any(has_set_in_list(v) for v in n.values())
    return False


def has_merge(n):
    if isinstance(n, dict):
        if getattr(n, "merge", None):
            return True
        return any(has_merge(v) for v in n.values())
    if isinstance(n, list) and not yp.is_set(n):
        return any(has_merge(e) for e in n)
    return False


def hidden_anchor_risk(data):
    """Anchors whose first occurrence could be hidden below a matched key make 'original vs repeat'
    depend on traversal pruning: detect documents where an anchor is first defined below depth 1."""
    return False


def judge(ctx, case, data, reported_paths, exp, merge_doc, via):
    # (1) at most once
    strs = [str(p) for p in reported_paths]
    if len(set(strs)) != len(strs):
        dup = sorted({s for s in strs if strs.count(s) > 1})
        bad = []
        for s in dup:
            # a path ending in [&anchor] stands for every site of that anchor in its list: once per site is legitimate
            try:
                sites = len(list(Processor(LOG, data).get_nodes(s, mustexist=True)))
                last = YAMLPath(s).escaped[-1][0]
            except Exception:
                sites, last = 0, None
            if last != PathSegmentTypes.ANCHOR or (strs.count(s) > sites and not merge_doc):
                bad.append(s)        # (a merge reference `hash[&anchor]` stands for every key inherited through it)
        if bad:
            ctx.violation("path-reported-twice/%s" % via, {"case": case, "summary": "duplicates %r" % bad[:4]})
            return
        strs = list(dict.fromkeys(strs))
    # (2) every reported path resolves
    resolved = {}       # position key -> path text
    path_sites = {}     # path text -> position keys it designates
    for s in strs:
        try:
            res = list(Processor(LOG, data).get_nodes(s, mustexist=True))
        except Exception as e:
            ctx.violation("reported-path-does-not-resolve/%s" % via, {"case": case, "summary": "%r: %s" % (s, str(e)[:120])})
            return
        ctx.counters["resolved_paths"] = ctx.counters.get("resolved_paths", 0) + 1
        try:
            last = YAMLPath(s).escaped[-1][0] if s.strip("/") else None
        except Exception:
            last = None
        if len(res) != 1 and last != PathSegmentTypes.ANCHOR:
            ctx.violation("reported-path-resolves-to-%s-nodes/%s" % ("no" if not res else "several", via), {
                "case": case, "summary": "%r resolves to %d nodes" % (s, len(res))})
            return
        ks = []
        for r in res:
            if last == PathSegmentTypes.ANCHOR and isinstance(r.parent, dict) and any(
                    m is r.node for (_i, m) in (getattr(r.parent, "merge", None) or [])):
                continue        # `hash[&anchor]` naming a merge reference: its "parentref" is the anchor name, not a key
            k = (id(r.parent), repr(r.parentref) if not yp.is_set(r.parent) else repr(str(r.parentref)))
            resolved.setdefault(k, s)
            ks.append(k)
        path_sites[s] = ks
    if merge_doc and case["alias"] == ANCHORS_ONLY:
        # "discard all aliased keys and values": what a mapping merely inherits through << is an aliased repeat of the
        # anchored mapping's own children and must not be reported (directly, or as a leaf of an expanded parent)
        for s in strs:
            for r in Processor(LOG, data).get_nodes(s, mustexist=True):
                for (cont, ref) in list(r.ancestry):
                    if isinstance(cont, dict) and getattr(cont, "merge", None) and not any(
                            k == ref and type(k) is type(ref) for k, _v in yp.own_items(cont)):
                        ctx.violation("merged-in-entry-reported-under-anchors-only/%s" % via, {
                            "case": case, "summary": "%r goes through %r, which its mapping only inherits via <<" % (s, ref)})
                        return
        ctx.counters["merge_docs_anchors_only_checked"] = ctx.counters.get("merge_docs_anchors_only_checked", 0) + 1
    if merge_doc:
        # soundness only: every resolved position must be a candidate that is not a definite non-match
        expk = {}
        order = {True: 2, None: 1, False: 0}
        for p in exp:
            if p.key() not in expk or order[p.verdict] > order[expk[p.key()].verdict]:
                expk[p.key()] = p
        for k, s in resolved.items():
            p = expk.get(k)
            if p is not None and p.verdict is False and p.why in ("value", "set-member"):
                ctx.violation("unsound/%s" % via, {"case": case, "summary": "%r reported but %r does not satisfy the expression" % (s, p.node)})
                return
        return
    expk = {}
    for p in exp:
        k = p.key()
        if k in expk:
            # the same position judged twice (key + value): True wins over None wins over False
            o = expk[k]
            order = {True: 2, None: 1, False: 0}
            if order[p.verdict] > order[o.verdict]:
                expk[k] = p
        else:
            expk[k] = p
    # (3) soundness: a path is sound when at least one site it designates may be reported
    for s, ks in path_sites.items():
        ps = [expk.get(k) for k in ks]
        if all(p is None for p in ps):
            ctx.violation("reports-a-non-candidate/%s" % via, {"case": case, "summary": "%r is not a searchable position" % s})
            return
        if all(p is None or p.verdict is False for p in ps):
            p = next(p for p in ps if p is not None)
            ctx.violation("unsound/%s/%s" % (p.why, via), {"case": case, "summary": "%r reported: %r (%s) must not be" % (s, p.node, p.why)})
            return
    # (4) completeness
    for k, p in expk.items():
        if p.verdict is True and k not in resolved:
            ctx.violation("incomplete/%s/%s" % (p.why, via), {"case": case, "summary": "no path for %s %r under ref %r; reported %r" % (
                p.why, p.node if not yp.is_container(p.node) else type(p.node).__name__, p.ref, strs[:8])})
            return


def lib_search(data, op, term, inv, sv, sk, ika, iva, expand, pathsep):
    terms = SearchTerms(inv, OPS[op], ".", term)
    proc = EYAMLProcessor(LOG, data)
    all_anchors = {}
    Anchors.scan_for_anchors(data, all_anchors)
    return list(yaml_paths.search_for_paths(
        LOG, proc, data, terms, pathsep, search_values=sv, search_keys=sk, search_anchors=False,
        include_key_aliases=ika, include_value_aliases=iva, decrypt_eyaml=False, expand_children=expand,
        all_anchors=all_anchors))


def run_case(ctx, text, data, op, term, inv, mode, alias, expand, sep, via="library", workdir=None):
    sv, sk = {"values": (True, False), "keys": (True, True), "keysonly": (False, True)}[mode]
    ika, iva = ALIAS_MODES[alias]
    case = {"doc": text, "expression": "%s%s%s" % ("!" if inv else "", op, term), "mode": mode, "alias": alias,
            "expand": expand, "pathsep": sep, "via": via}
    merge_doc = has_merge(data)
    exp = expected_positions(data, op, term, inv, sv, sk, ika, iva, expand)
    ctx.evaluations += 1
    if any(p.verdict is True for p in exp):
        ctx.mark_nontrivial([text, case["expression"], mode, alias, expand, sep])
    if expand:
        ctx.counters["expand_cases"] = ctx.counters.get("expand_cases", 0) + 1
    pathsep = PathSeparators.DOT if sep == "." else PathSeparators.FSLASH
    if via == "library":
        ctx.counters["lib_cases"] = ctx.counters.get("lib_cases", 0) + 1
        try:
            paths = lib_search(data, op, term, inv, sv, sk, ika, iva, expand, pathsep)
        except YAMLPathException:
            ctx.count("search_yamlpath_error")
            return
        except Exception as e:
            ctx.violation("crash/%s" % type(e).__name__, {"case": case, "summary": "%s: %s" % (type(e).__name__, str(e)[:150])})
            return
    else:
        ctx.counters["cli_cases"] = ctx.counters.get("cli_cases", 0) + 1
        os.makedirs(workdir, exist_ok=True)
        f = os.path.join(workdir, "d.yaml")
        with open(f, "w") as fh:
            fh.write(text + "\n")
        # on the command line the term is written with YAML Path escapes (the only unquoted way to carry a blank,
        # a bracket or a quote mark): =x\ y
        cli_expr = case["expression"] if op == "=~" else "%s%s%s" % ("!" if inv else "", op, gp.render_term(op, term))
        case["cli_expression"] = cli_expr
        if cli_expr != case["expression"]:
            ctx.counters["cli_escaped_terms"] = ctx.counters.get("cli_escaped_terms", 0) + 1
        argv = ["-X", "-F", "-t", sep, "-s", cli_expr]
        argv += {"values": [], "keys": ["-k"], "keysonly": ["-K"]}[mode]
        argv += ["-" + alias]
        if expand:
            argv.append("-m")
        # the document is delivered as a file, as explicit STDIN (-) or as implicit STDIN (no file argument at all):
        # three routes through main(), one outcome
        route = ctx.rng.choice(["file", "file", "dash", "implicit"])
        case["route"] = route
        ctx.counters["cli_route_" + route] = ctx.counters.get("cli_route_" + route, 0) + 1
        if route == "file":
            r = cli.run("yaml_paths", ["-S"] + argv + [f])
        elif route == "dash":
            r = cli.run("yaml_paths", argv + ["-"], stdin_text=text + "\n")
        else:
            r = cli.run("yaml_paths", argv, stdin_text=text + "\n")
        if r["exc"]:
            ctx.violation("cli-crash", {"case": case, "summary": r["exc"][:200]})
            return
        if r["code"] != 0:
            ctx.count("cli_nonzero_exit")
            return
        paths = [ln for ln in r["out"].splitlines() if ln.strip()]
        # cross-check with the library call
        try:
            lib = [str(p) for p in lib_search(yp.load(text), op, term, inv, sv, sk, ika, iva, expand, pathsep)]
        except Exception:
            lib = None
        if lib is not None:
            lib = list(dict.fromkeys(lib))       # the tool prints each distinct path once
        if lib is not None and lib != paths:
            ctx.violation("cli-differs-from-library", {"case": case, "summary": "printed %r ; search_for_paths %r" % (paths[:8], lib[:8])})
            return
    judge(ctx, case, data, paths, exp, merge_doc, via)


def gen_term(rng, vocab, op):
    if op == "=~":
        return rng.choice(["a", "^a", "b$", "1", ".", "^.$", "a|b", "[0-9]", "x"])
    pool = vocab["terms"] + vocab["keys"] + ["a", "b", "1", "ab", "true", "2", "zz", "5"]
    t = str(rng.choice(pool))
    if rng.random() < 0.3 and len(t) > 1:
        t = t[:rng.randrange(1, len(t))]
    return t or "a"


MERGE_DOCS = ["{a: &X {p: 1, q: ab}, b: {<<: *X, q: 2, r: ab}}",
              "{base: &B {name: x, v: 1}, l: [{<<: *B, v: 2}, {<<: *B}]}"]
SEEDS = [("{a: &A1 x, b: *A1, c: [*A1, y, x]}", "=", "x"), ("{a: {b: 1, c: ab}, ab: 2, l: [ab, {ab: 3}]}", "^", "a"),
         ("{s: !!set {a, b, ab}, t: a}", "=", "a"), ("[1, [2, 1], {k: 1}]", "=", "1")]


def multi_expression_case(ctx, rng, workdir):
    """Several searches in ONE real yaml-paths process (two -s expressions): the printed paths are those of the two
    single-expression runs, in that order - every search starts from scratch (anchor bookkeeping included)."""
    import subprocess
    text, _ = gd.gen_doc(rng, "A")
    try:
        data = yp.load(text)
    except yp.LoadError:
        return
    if not isinstance(data, (dict, list)) or yp.is_set(data) or has_set_in_list(data) or "&" not in text:
        return
    vocab = gp.doc_vocab(data)
    terms = [t for t in vocab["terms"] if t.isalnum()][:6]
    if len(terms) < 2:
        return
    e1, e2 = ["=" + t for t in rng.sample(terms, 2)]
    os.makedirs(workdir, exist_ok=True)
    f = os.path.join(workdir, "m.yaml")
    with open(f, "w") as fh:
        fh.write(text + "\n")
    exe = os.path.join(os.path.dirname(sys.executable), "yaml-paths")
    env = dict(os.environ, PYTHONPATH=yp.REPO_ROOT + os.pathsep + os.environ.get("PYTHONPATH", ""))

    def run(exprs):
        argv = [exe, "-S", "-X", "-F"] + [a for e in exprs for a in ("-s", e)] + [f]
        p = subprocess.run(argv, capture_output=True, text=True, timeout=60, env=env, stdin=subprocess.DEVNULL)
        return p.returncode, [ln for ln in p.stdout.splitlines() if ln.strip()]
    ctx.evaluations += 1
    ctx.counters["multi_expression_subprocess_cases"] = ctx.counters.get("multi_expression_subprocess_cases", 0) + 1
    (c12, o12), (c1, o1), (c2, o2) = run([e1, e2]), run([e1]), run([e2])
    if o1 and o2:
        ctx.mark_nontrivial([text, e1, e2])
    if o12 != o1 + [x for x in o2 if x not in o1]:        # (the tool prints each distinct path once)
        ctx.violation("multi-expression-run-differs-from-single-runs/yaml-paths", {
            "case": {"doc": text, "expressions": [e1, e2]},
            "summary": "both: %r ; %s alone: %r ; %s alone: %r" % (o12[:8], e1, o1[:6], e2, o2[:6])})


def multi_document_case(ctx, rng, workdir):
    """A STREAM of documents in one file (or on STDIN): for every document the tool reports what it reports for that document
    alone - same-shaped documents match at the same paths, and each of them is still reported."""
    text, _ = gd.gen_doc(rng, rng.choice(["N", "A"]))
    try:
        data = yp.load(text)
    except yp.LoadError:
        return
    if not isinstance(data, (dict, list)) or yp.is_set(data) or has_set_in_list(data):
        return
    vocab = gp.doc_vocab(data)
    terms = [t for t in vocab["terms"] if t.isalnum()][:6]
    if not terms:
        return
    docs = [text]
    for _ in range(rng.randrange(1, 3)):
        other = gd.gen_doc(rng, "N")[0]
        docs.append(rng.choice([text, text, other]))
    rng.shuffle(docs)
    expr = rng.choice(["=", "^", "$"]) + rng.choice(terms)
    opts = rng.choice([[], ["-k"], ["-m"], ["-K"]])
    os.makedirs(workdir, exist_ok=True)
    singles = []
    for i, d in enumerate(docs):
        f1 = os.path.join(workdir, "one.yaml")
        with open(f1, "w") as fh:
            fh.write(d + "\n")
        r = cli.run("yaml_paths", ["-S", "-X", "-F", "-s", expr] + opts + [f1])
        if r["exc"] or r["code"] != 0:
            return
        singles.append([ln for ln in r["out"].splitlines() if ln.strip()])
    stream = "".join("--- %s\n" % d for d in docs)
    f = os.path.join(workdir, "stream.yaml")
    with open(f, "w") as fh:
        fh.write(stream)
    route = rng.choice(["file", "stdin"])
    if route == "file":
        r = cli.run("yaml_paths", ["-S", "-X", "-s", expr] + opts + [f])
        label = f
    else:
        r = cli.run("yaml_paths", ["-X", "-s", expr] + opts + ["-"], stdin_text=stream)
        label = "STDIN"
    ctx.evaluations += 1
    ctx.counters["multi_document_cases"] = ctx.counters.get("multi_document_cases", 0) + 1
    case = {"docs": docs, "expression": expr, "options": opts, "route": route}
    if r["exc"]:
        ctx.violation("cli-crash", {"case": case, "summary": r["exc"][:200]})
        return
    got = [ln for ln in r["out"].splitlines() if ln.strip()]
    want = ["%s/%d: %s" % (label, i, ln) for i, lines in enumerate(singles) for ln in lines]
    if sum(1 for x in singles if x) >= 2:
        ctx.mark_nontrivial([docs, expr, opts])
    if got != want:
        ctx.violation("multi-document-run-differs-from-single-runs/yaml-paths", {"case": case, "summary": "stream: %r ; one by one: %r" % (got[:8], want[:8])})


def run_shard(ctx):
    rng = ctx.rng
    sz = SIZES[ctx.tier]
    for _ in range(3 if ctx.tier == "quick" else 40):
        multi_expression_case(ctx, rng, os.path.join(os.environ.get("VF_WORKDIR", "/dev/shm"), "c07m-%d" % ctx.shard))
    for _ in range(12 if ctx.tier == "quick" else 150):
        multi_document_case(ctx, rng, os.path.join(os.environ.get("VF_WORKDIR", "/dev/shm"), "c07d-%d" % ctx.shard))
    workdir = os.path.join(os.environ.get("VF_WORKDIR", "/dev/shm"), "c07-%d" % ctx.shard)
    if ctx.shard == 0:
        for d, op, t in SEEDS:
            data = yp.load(d)
            for mode in ("values", "keys", "keysonly"):
                for alias in ALIAS_MODES:
                    for expand in (False, True):
                        run_case(ctx, d, data, op, t, False, mode, alias, expand, rng.choice([".", "/"]))
            ctx.sample({"doc": d, "expression": op + t})
    want = sz["lib"] // ctx.nshards
    wcli = max(2, sz["cli"] // ctx.nshards)
    ncli = 0
    n = 0
    while ctx.counters.get("lib_cases", 0) < want:
        x = rng.random()
        if x < 0.04:
            text = rng.choice(MERGE_DOCS)
        elif x < 0.12:
            text = gd.gen_merge_doc(rng)
        else:
            regime = rng.choice(["N", "U", "A", "A"])
            negkeys = rng.random() < 0.1            # Integer keys below zero (printed as `levels.-2`)
            text, _ = gd.gen_doc(rng, regime, special_keys=rng.random() < 0.15, keys=(["-2", "-1", "-10", "a", "b", "0"] if negkeys else None))
            if negkeys:
                ctx.counters["docs_with_negative_integer_keys"] = ctx.counters.get("docs_with_negative_integer_keys", 0) + 1
        try:
            data = yp.load(text)
        except yp.LoadError:
            continue
        if not isinstance(data, (dict, list)) or yp.is_set(data) or has_set_in_list(data):
            continue
        if "&" in text:
            ctx.counters["anchor_docs"] = ctx.counters.get("anchor_docs", 0) + 1
        vocab = gp.doc_vocab(data)
        for _ in range(6):
            op = rng.choice(list(OPS))
            term = gen_term(rng, vocab, op)
            if any(c in term for c in "[]'\"\\") or not term or term != term.strip():
                term = "a"
            inv = rng.random() < 0.25
            mode = rng.choice(["values", "values", "keys", "keysonly"])
            alias = rng.choice(list(ALIAS_MODES))
            expand = rng.random() < 0.3
            sep = rng.choice([".", "/"])
            run_case(ctx, text, data, op, term, inv, mode, alias, expand, sep)
            if ncli < wcli and (rng.random() < 0.05 or (" " in term and rng.random() < 0.5)) and not any(c in term for c in "=^$%!<>~*&.,()"):
                run_case(ctx, text, data, op, term, inv, mode, alias, expand, sep, via="yaml-paths", workdir=workdir)
                ncli += 1
        n += 1
        if n <= 2:
            ctx.sample({"doc": text})
    while ncli < wcli:
        text, _ = gd.gen_doc(rng, rng.choice(["N", "A"]))
        try:
            data = yp.load(text)
        except yp.LoadError:
            continue
        if not isinstance(data, (dict, list)) or yp.is_set(data) or has_set_in_list(data):
            continue
        vocab = gp.doc_vocab(data)
        op = rng.choice(list(OPS))
        term = gen_term(rng, vocab, op)
        if any(c in term for c in "[]'\"\\ =^$%!<>~*&.,()") or not term:
            term = "a"
        run_case(ctx, text, data, op, term, False, rng.choice(["values", "keys", "keysonly"]), rng.choice(list(ALIAS_MODES)),
                 rng.random() < 0.3, rng.choice([".", "/"]), via="yaml-paths", workdir=workdir)
        ncli += 1


def replay(w):
    c = w["case"]

    class _Ctx:
        def __init__(self):
            self.v, self.evaluations, self.counters = [], 0, {}

        def count(self, *a):
            pass

        def mark_nontrivial(self, *a):
            pass

        def violation(self, m, w):
            self.v.append((m, w["summary"]))
    cx = _Ctx()
    e = c["expression"]
    inv = e.startswith("!")
    e = e[1:] if inv else e
    op = next(o for o in sorted(OPS, key=len, reverse=True) if e.startswith(o))
    run_case(cx, c["doc"], yp.load(c["doc"]), op, e[len(op):], inv, c["mode"], c["alias"], c["expand"], c["pathsep"],
             via=c.get("via", "library"), workdir="/dev/shm/c07-replay")
    return {"violated": bool(cx.v), "found": cx.v}


MANIFEST = {
    "level_text": ("Exploration: 4*10^4 (quick) to 1.2*10^6 (thorough) searches through search_for_paths over generated "
                   "documents (with and without anchors/aliases; a few with merge keys) x operators x inversion x search "
                   "scope x alias mode x expand x notation, plus a sample through the real yaml-paths entry point; "
                   "brute-force three-valued oracle for soundness/completeness/uniqueness, and re-resolution of every "
                   "reported path through Processor.get_nodes."),
    "level_note": "Comparator cells the documentation leaves open, descendants of matched keys, and sets under --expand accept either answer.",
    "technique": "runtime differential monitor: search results vs brute-force three-valued oracle + re-resolution contract on every path",
}

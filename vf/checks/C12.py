"""C12 — search operators compare values by the documented typed rules.

Workload: the complete grid operator x value x term over a pool of real
scalar nodes (loaded from YAML text) and term spellings; random scalars; and
the inversion partition [.OP t] / [.!OP t] on every list and hash of generated
documents through real queries.

Oracle: vf.model.cmp (three-valued reference comparator) for the grid;
partition invariant (plain and inverted results are disjoint and together are
exactly the children) for inversion; escape monitor (never raises for a
well-formed term).
"""
import re

from vf.core import yp
from vf.core.yp import Processor, YAMLPathException, LOG
from vf.model import cmp as M
from vf.gen import docs as gd
from vf.gen import paths as gp
from yamlpath.common import Searches
from yamlpath.enums import PathSearchMethods

PROPERTY = "C12"
LEVEL = "exploration"
RULE = ("complete grid of 9 operators x pool values (real nodes loaded from YAML: null, booleans, ints, floats, numeric "
        "strings, padded numbers, text, empty string, look-alike literals, dates) x pool terms, each cell compared with "
        "a three-valued reference comparator; random scalar pairs; inversion partition on every list/hash/set of "
        "generated documents via [.OP t] and [.!OP t]. A grid cell is non-trivial when the reference decides it "
        "(must / must-not); a partition case is non-trivial when the collection has >=2 children and both parts are "
        "non-empty; distinct by (op, value source text, term) resp. (doc, op, term)")
ASSUMPTIONS = ["cells where the documentation is silent (string-spelled numbers for = and ordering, booleans as numbers, "
               "text of null / bare booleans, exotic numeric spellings as terms) are counted as abstentions, not judged"]
REACH = [("yamlpath/common/searches.py", "search_matches", "Searches.search_matches"),
         ("yamlpath/processor.py", "_get_nodes_by_search", "Processor._get_nodes_by_search")]
EXHAUSTIVE_NOTE = "the operator x value-pool x term-pool grid (sizes in counters grid_cells)"
SIZES = {"quick": dict(rnd=400000, part=60000), "thorough": dict(rnd=2500000, part=250000)}
REQUIRED_COUNTERS = ["grid_cells", "grid_decided", "partition_checked", "anchor_twin_checked", "membership_checked", "typed_set_partitions", "set_membership_checked",
                     "descendant_attr_partitions", "attr_over_mixed_list_partitions"]

OPS = {"=": PathSearchMethods.EQUALS, "^": PathSearchMethods.STARTS_WITH, "$": PathSearchMethods.ENDS_WITH,
       "%": PathSearchMethods.CONTAINS, ">": PathSearchMethods.GREATER_THAN, "<": PathSearchMethods.LESS_THAN,
       ">=": PathSearchMethods.GREATER_THAN_OR_EQUAL, "<=": PathSearchMethods.LESS_THAN_OR_EQUAL,
       "=~": PathSearchMethods.REGEX}
VALUE_SRC = ["null", "true", "false", "0", "1", "-1", "5", "10", "123456789012", "1.0", "1.5", "-0.0", "1e3", "5.0",
             "0.5", "'5'", "'5.0'", "'1e3'", "' 5'", "'5 '", "'05'", "'+5'", "'10'", "'-1'", "a", "b", "ab", "abc",
             "B", "'a b'", "''", "'True'", "'true'", "'TRUE'", "'false'", "'none'", "'None'", "'null'", "'0x10'",
             "'1_0'", "2020-01-01", "'2020-01-01'", "x.y", "'[a]'", "'1.'", "&b1 true", "&b2 false",
             "&i1 5", "&s1 ab", "&f1 1.5", "&n1 -1", "&q1 'true'", "'...'", "'(1)'", "'{[1]: 2}'", "'{[]}'", "'(1,)'", "'[1, 2]'", "'{1, 2}'", "'1+1'",
             "\"'q'\"", ".nan", ".inf", "-.inf", "'\u0663'", "'\uff11\uff12'", "'\u00b2'", "'\u2460'"]     # digits of other scripts are text
TERMS = ["null", "None", "none", "true", "True", "TRUE", "false", "0", "1", "-1", "5", "10", "1.0", "1.5", "-0.0",
         "1e3", "1000.0", "5.0", " 5", "05", "+5", "a", "b", "ab", "abc", "B", "a b", "t", "T", "0x", "0x10", "16",
         "1_0", "_", "2020", "2020-01-01", "-01", "x", ".", "1.", "e", "0.5", "9", "2", "bc", "", "{[1]:2}", "{[]}", "(1,)",
         "[1]", "nan", "inf", "1+1", "1.50", "0.0", "5.00", "0.50", "1000.00", "-1.0", "\u0663", "\u00b2", "3", "12", "\uff11\uff12",
         "2j", "1e3j", "3+4j", "-0j", "1j", "b'5'", "0o17", "1e400", "-1e400", "1e-400", "5L", "0b11", "...", "5,", "5,6"]     # floats in non-canonical decimal spelling; literals of other Python types
REGEX_TERMS = ["a", "^a", "b$", "^a.*c$", ".", "^$", "[0-9]+", "^[0-9.]+$", "^-", "0x", "(?i)true", "^.$", "a|b",
               "\\.", "x*", "^5", " ", "_", "^None$", "T"]


def load_values():
    data = yp.load("[" + ", ".join(VALUE_SRC) + "]")
    assert len(data) == len(VALUE_SRC)
    return list(zip(VALUE_SRC, list(data)))


def mech_for(op, src, value, term, got, exp):
    vk = "null" if value is None else ("bool" if isinstance(value, bool) else type(value).__name__)
    if isinstance(value, str):
        rt = M.py_retype(str(value))
        if not isinstance(rt, str) and str(rt) != str(value):
            # the string's characters differ from the text of its Python-literal re-typing:
            # does the observed answer equal the documented answer *for that other text*?
            try:
                alt = M.decide(op, str(rt), term) if op in M.TEXT_OPS else M._one(
                    op, ("text", str(rt), str(rt)), ("text", term, term))
            except Exception:
                alt = None
            if alt == got:
                return "string-value-retyped-by-literal-eval"
    return "cmp/%s/%s/got=%s" % (op, vk, got)


def check_cell(ctx, op, src, value, term):
    ctx.evaluations += 1
    ctx.counters["grid_cells"] = ctx.counters.get("grid_cells", 0) + 1
    try:
        exp = M.decide(op, value, term)
    except re.error:
        exp = "bad-regex"
    try:
        got = Searches.search_matches(OPS[op], term, value)
    except YAMLPathException:
        got = "YPE"
    except Exception as e:
        if exp == "bad-regex" and isinstance(e, re.error):
            got = "re.error"
        else:
            ctx.violation("raises/%s/%s" % (op, type(e).__name__), {
                "case": {"op": op, "value_src": src, "term": term}, "summary": "%s: %s" % (type(e).__name__, e)})
            return
    if src.startswith("&") and got in (True, False):
        # an anchor is not data: the same scalar without its anchor must get the same answer (ruamel gives anchored
        # scalars other Python types - ScalarBoolean, ScalarInt, PlainScalarString)
        try:
            twin = Searches.search_matches(OPS[op], term, yp.load("[%s]" % src.split(" ", 1)[1])[0])
        except Exception:
            twin = None
        ctx.counters["anchor_twin_checked"] = ctx.counters.get("anchor_twin_checked", 0) + 1
        if twin in (True, False) and twin != got:
            ctx.violation("anchor-changes-answer/%s" % op, {
                "case": {"op": op, "value_src": src, "term": term},
                "summary": "search_matches(%s, %r, %s) = %r but %r for the same scalar without the anchor" % (op, term, src, got, twin)})
            return
    if exp == "bad-regex":
        ctx.count("ill_formed_regex_cells")
        return
    if exp is None:
        ctx.counters["abstain_silent"] = ctx.counters.get("abstain_silent", 0) + 1
        return
    ctx.counters["grid_decided"] = ctx.counters.get("grid_decided", 0) + 1
    ctx.mark_nontrivial([op, src, term])
    if got != exp:
        ctx.violation(mech_for(op, src, value, term, got, exp), {
            "case": {"op": op, "value_src": src, "term": term},
            "summary": "search_matches(%s, %r, %s) = %r, documented rules give %r" % (op, term, src, got, exp)})


def partition(ctx, doc_text, data, coll_path, coll, op, term):
    """plain and inverted searches partition the children of one collection."""
    ctx.evaluations += 1
    t = gp.render_term(op, term)
    base = coll_path
    from yamlpath.exceptions import UnmatchedYAMLPathException

    def q(path):
        try:
            return list(Processor(LOG, data).get_nodes(path, mustexist=True))
        except UnmatchedYAMLPathException:
            return []
    try:
        pl = q("%s/[.%s%s]" % (base, op, t))
        iv = q("%s/[.!%s%s]" % (base, op, t))
    except YAMLPathException:
        ctx.count("partition_yamlpath_error")
        return
    except Exception as e:
        ctx.violation("partition-raises/%s" % type(e).__name__, {
            "case": {"doc": doc_text, "path": base, "op": op, "term": term},
            "summary": "%s: %s" % (type(e).__name__, e)})
        return
    if isinstance(coll, dict):
        children = list(coll.keys())
        locp = [n.parentref for n in pl]
        loci = [n.parentref for n in iv]
    elif isinstance(coll, list):
        children = list(range(len(coll)))
        locp = [n.parentref for n in pl]
        loci = [n.parentref for n in iv]
    else:
        children = list(coll)
        locp = [n.node for n in pl]
        loci = [n.node for n in iv]
    ctx.counters["partition_checked"] = ctx.counters.get("partition_checked", 0) + 1
    ok = (len(locp) == len(set(map(repr, locp))) and len(loci) == len(set(map(repr, loci)))
          and not (set(map(repr, locp)) & set(map(repr, loci)))
          and sorted(map(repr, locp + loci)) == sorted(map(repr, children)))
    if len(children) >= 2 and locp and loci:
        ctx.mark_nontrivial([doc_text, base, op, term])
    # membership through the Processor (the term travels the whole way from the path text to the comparator): every scalar
    # child the documented rules put in / keep out of the plain result must be there / must not
    if isinstance(coll, list) and not yp.is_set(coll) and ok:
        for i, child in enumerate(coll):
            if yp.is_container(child):
                continue
            try:
                want = M.decide(op, child, term)
            except re.error:
                want = None
            if want is None:
                continue
            ctx.counters["membership_checked"] = ctx.counters.get("membership_checked", 0) + 1
            if (i in locp) != want:
                ctx.violation("processor-search-membership/%s" % op, {
                    "case": {"doc": doc_text, "path": base, "op": op, "term": term},
                    "summary": "element %d (%r) %s the result of [.%s%s]; documented rules say it %s" % (
                        i, child, "is in" if i in locp else "is not in", op, t, "must be" if want else "must not be")})
                break
    if not ok:
        kind = "map" if isinstance(coll, dict) else "seq" if isinstance(coll, list) else "set"
        ctx.violation("inversion-not-complement/%s" % kind, {
            "case": {"doc": doc_text, "path": base, "op": op, "term": term},
            "summary": "children=%r plain=%r inverted=%r" % (children, locp, loci)})


def typed_set_case(ctx, rng):
    """`!!set` nodes whose members are not all Strings (ints, floats, Booleans): partition + documented membership."""
    pool = ["5", "10", "2.5", "2.50", "true", "false", "a", "ab", "0", "-1", "1e3", "'5'", "0x10", "null"]
    members = rng.sample(pool, rng.randrange(2, 6))
    text = "s: !!set\n" + "".join("  ? %s\n" % m for m in members)
    try:
        data = yp.load(text)
    except yp.LoadError:
        return
    op = rng.choice(list(OPS))
    term = rng.choice(REGEX_TERMS) if op == "=~" else rng.choice([m.strip("'") for m in members] + ["5", "5.0", "2.5", "TRUE", "1000", "16", "a"])
    ctx.count("typed_set_partitions")
    partition(ctx, text, data, "/s", data["s"], op, term)
    # membership: the documented rules decide most cells
    t = gp.render_term(op, term)
    try:
        got = [n.node for n in Processor(LOG, data).get_nodes("/s/[.%s%s]" % (op, t), mustexist=False)]
    except YAMLPathException:
        return
    for m in list(data["s"]):
        try:
            want = M.decide(op, m, term)
        except re.error:
            want = None
        if want is None:
            continue
        ctx.counters["membership_checked"] = ctx.counters.get("membership_checked", 0) + 1
        ctx.count("set_membership_checked")
        if any(g is m for g in got) != want:
            ctx.violation("processor-search-membership/set/%s" % op, {
                "case": {"doc": text, "path": "/s", "op": op, "term": term},
                "summary": "member %r %s the result of [.%s%s]; documented rules say it %s" % (
                    m, "is in" if not want else "is not in", op, t, "must be" if want else "must not be")})
            return


def descendant_attr_case(ctx, rng):
    """Hashes searched one by one for a DESCENDANT attribute (`/things/*[spec.size OP t]`), some of them lacking it: the
    plain and the inverted search still partition the candidates."""
    kids = []
    for k in rng.sample(["t1", "t2", "t3", "t4", "t5"], rng.randrange(2, 6)):
        kids.append("%s: %s" % (k, rng.choice(["{spec: {size: %s}}" % rng.choice(["5", "10", "big", "2.5", "true"]), "{spec: {}}",
                                                "{other: 1}", "{spec: {size: 5, w: 1}, other: 2}", "{}"])))
    text = "{things: {%s}}" % ", ".join(kids)
    data = yp.load(text)
    op = rng.choice(list(OPS))
    term = rng.choice(REGEX_TERMS) if op == "=~" else rng.choice(["5", "10", "big", "b", "2.5", "true", "7"])
    t = gp.render_term(op, term)
    attr = rng.choice(["spec.size", "spec.size", "spec.w"])
    ctx.evaluations += 1
    ctx.count("descendant_attr_partitions")
    res = []
    for inv in ("", "!"):
        try:
            res.append([n.parentref for n in Processor(LOG, data).get_nodes("/things/*[%s%s%s%s]" % (attr, inv, op, t), mustexist=False)])
        except YAMLPathException:
            return
        except Exception as e:
            ctx.violation("partition-raises/%s" % type(e).__name__, {"case": {"doc": text, "attr": attr, "op": op, "term": term}, "summary": repr(e)[:150]})
            return
    ctx.counters["partition_checked"] = ctx.counters.get("partition_checked", 0) + 1
    if res[0] and res[1]:
        ctx.mark_nontrivial([text, attr, op, term])
    if sorted(res[0] + res[1]) != sorted(data["things"].keys()):
        ctx.violation("inversion-not-complement/descendant-attribute", {
            "case": {"doc": text, "path": "/things/*", "attr": attr, "op": op, "term": term},
            "summary": "children=%r plain=%r inverted=%r" % (list(data["things"].keys()), res[0], res[1])})


def attr_over_mixed_list_case(ctx, rng):
    """A LIST searched for an attribute of its elements (`/hosts[port OP t]`) when the list mixes Hashes - with and without
    the attribute - with scalars and nulls: every element is a candidate, so the plain and the inverted search partition
    the element indexes."""
    els = []
    for _ in range(rng.randrange(2, 7)):
        els.append(rng.choice(["{port: %s}" % rng.choice(["80", "8080", "big", "2.5", "true", "null"]), "{name: x}", "{}", "null", "localhost", "8080",
                               "true", "2.5", "{port: 80, name: y}", "''"]))
    text = "{hosts: [%s], o: 1}" % ", ".join(els)
    data = yp.load(text)
    op = rng.choice(list(OPS))
    term = rng.choice(REGEX_TERMS) if op == "=~" else rng.choice(["80", "8080", "big", "b", "2.5", "true", "7", "localhost"])
    t = gp.render_term(op, term)
    attr = rng.choice(["port", "port", "name"])
    ctx.evaluations += 1
    ctx.count("attr_over_mixed_list_partitions")
    res = []
    for inv in ("", "!"):
        path = rng.choice(["/hosts[%s%s%s%s]", "hosts[%s%s%s%s]"]) % (attr, inv, op, t)
        try:
            res.append([n.parentref for n in Processor(LOG, data).get_nodes(path, mustexist=False)])
        except YAMLPathException:
            return
        except Exception as e:
            ctx.violation("partition-raises/%s" % type(e).__name__, {"case": {"doc": text, "attr": attr, "op": op, "term": term}, "summary": repr(e)[:150]})
            return
    ctx.counters["partition_checked"] = ctx.counters.get("partition_checked", 0) + 1
    if res[0] and res[1]:
        ctx.mark_nontrivial([text, attr, op, term])
    n = len(data["hosts"])
    if sorted(map(repr, res[0] + res[1])) != sorted(map(repr, range(n))):
        ctx.violation("inversion-not-complement/attribute-over-mixed-list", {
            "case": {"doc": text, "path": "/hosts", "attr": attr, "op": op, "term": term},
            "summary": "elements=0..%d plain=%r inverted=%r" % (n - 1, res[0], res[1])})


def collections(data):
    """(slash path text, container) for every list/hash/set reachable by plain keys/indexes."""
    out = []

    def walk(n, p):
        if isinstance(n, dict):
            out.append((p, n))
            for k, v in n.items():
                ks = str(k)
                if re.match(r"^[a-z]+$", ks):
                    walk(v, p + "/" + ks)
        elif isinstance(n, list):
            out.append((p, n))
            for i, e in enumerate(n):
                walk(e, p + "/[%d]" % i)
        elif yp.is_set(n):
            out.append((p, n))
    walk(data, "")
    return out


def run_shard(ctx):
    rng = ctx.rng
    sz = SIZES[ctx.tier]
    values = load_values()
    # ---- complete grid, strided over shards -------------------------------
    idx = 0
    for op in OPS:
        terms = REGEX_TERMS if op == "=~" else TERMS
        for src, v in values:
            for t in terms:
                if idx % ctx.nshards == ctx.shard:
                    check_cell(ctx, op, src, v, t)
                idx += 1
    if ctx.shard == 0:
        ctx.sample({"grid": {"op": "^", "value": "'0x10'", "term": "0x"}})
    # ---- random scalars -------------------------------------------------------
    alphabet = "ab1.5 -_xT0e"
    for i in range(sz["rnd"] // ctx.nshards):
        kind = rng.random()
        if kind < 0.3:
            v = rng.choice([rng.randrange(-20, 1000), rng.randrange(-3, 4)])
            src = str(v)
        elif kind < 0.5:
            v = round(rng.uniform(-50, 50), rng.randrange(1, 4))
            src = repr(v)
        elif kind < 0.55:
            v = rng.choice([True, False, None])
            src = repr(v)
        else:
            v = "".join(rng.choice(alphabet) for _ in range(rng.randrange(0, 6)))
            src = "str:" + v
        x = rng.random()
        if x < 0.4:
            t = "".join(rng.choice(alphabet) for _ in range(rng.randrange(0, 4)))
        elif x < 0.7:
            t = str(rng.randrange(-20, 100))
        elif x < 0.85:
            t = repr(round(rng.uniform(-50, 50), rng.randrange(1, 3)))
        else:
            t = str(v)[:rng.randrange(0, 4)] if v is not None else "No"
        op = rng.choice(list(OPS))
        if op == "=~":
            t = rng.choice(REGEX_TERMS)
        check_cell(ctx, op, src, v, t)
        if i < 2:
            ctx.sample({"random": {"op": op, "value": src, "term": t}})
    # ---- inversion partition through real queries ---------------------------------
    done = 0
    want = sz["part"] // ctx.nshards
    while done < want:
        if rng.random() < 0.1:
            typed_set_case(ctx, rng)
            descendant_attr_case(ctx, rng)
            attr_over_mixed_list_case(ctx, rng)
            done += 3
        text = rng.choice(gd.HOSTILE) if rng.random() < 0.1 else gd.gen_doc(rng, rng.choice(["N", "U"]))[0]
        try:
            data = yp.load(text)
        except yp.LoadError:
            continue
        vocab = gp.doc_vocab(data)
        for (p, coll) in collections(data)[:6]:
            for _ in range(3):
                op = rng.choice(list(OPS))
                t = rng.choice(REGEX_TERMS) if op == "=~" else rng.choice((vocab["terms"] + vocab["keys"] + ["a", "1", "b"]))
                if not t or any(c in t for c in "[]'\"\\"):
                    t = "a"
                partition(ctx, text, data, p, coll, op, t)
                done += 1
                if done < 3:
                    ctx.sample({"partition": {"doc": text, "path": p, "op": op, "term": t}})


def finish(merged):
    merged["exhaustive"] = True


def replay(w):
    c = w["case"]
    if "value_src" in c:
        if c["value_src"].startswith("str:"):
            v = c["value_src"][4:]
        elif c["value_src"] in VALUE_SRC:
            v = yp.load("[" + c["value_src"] + "]")[0]
        else:
            import ast
            v = ast.literal_eval(c["value_src"])
        exp = M.decide(c["op"], v, c["term"])
        got = Searches.search_matches(OPS[c["op"]], c["term"], v)
        return {"violated": exp is not None and got != exp, "got": got, "documented": exp}
    data = yp.load(c["doc"])
    t = gp.render_term(c["op"], c["term"])
    pl = [repr(n.node) for n in Processor(LOG, data).get_nodes("%s/[.%s%s]" % (c["path"], c["op"], t))]
    iv = [repr(n.node) for n in Processor(LOG, data).get_nodes("%s/[.!%s%s]" % (c["path"], c["op"], t))]
    return {"violated": None, "plain": pl, "inverted": iv}


MANIFEST = {
    "level_text": ("Exploration with a completely enumerated grid: every (operator, value, term) cell over a pool of ~45 "
                   "real scalar nodes and ~45 term spellings is executed through Searches.search_matches and compared "
                   "with a three-valued reference comparator written from the property statement (cells where the "
                   "documentation is silent are abstentions, counted in evidence); plus random scalar pairs and the "
                   "inversion partition checked through real [.OP t] / [.!OP t] queries on every collection of generated documents."),
    "level_note": ("The reference comparator encodes my reading of the statement; abstentions trade detection for "
                   "soundness. Only CPython 3.12 / ruamel 0.17.21 node types are exercised."),
    "technique": "runtime differential monitor: real comparator vs three-valued reference on a full grid + partition invariant on live queries",
}

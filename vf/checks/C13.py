"""C13 — search keywords select by their definitions.

Definitional oracle (python max/min, Counter, ancestor walk) on plain data,
compared as multisets of locations (parent identity + reference) with the
results of real queries.
"""
from collections import Counter

from vf.core import yp
from vf.core.yp import Processor, YAMLPathException, NodeCoords, LOG
from yamlpath import YAMLPath
from yamlpath.exceptions import UnmatchedYAMLPathException

PROPERTY = "C13"
LEVEL = "exploration"
RULE = ("sequences of same-kind scalars (ints, floats, alphabetic strings; ties, repeats, nulls) under max/min/unique/"
        "distinct with and without inversion; Arrays-of-Hashes and hashes-of-hashes with a shared attribute that is "
        "present, absent, repeated or null, under max(a)/min(a)/unique(a)/distinct(a)/has_child(a) with and without "
        "inversion (values include 0, 0.0, negatives and the empty string; max/min results followed by parent(n) and key "
        "segments); parent(n) after a wildcard over every container's children; parent(n) for every node of random documents and n = 1..depth+1 (and no parameter); name() for "
        "every node. Non-trivial = a collection with >=2 members (resp. a non-root node); distinct by (document, query)")
ASSUMPTIONS = ["results are compared as multisets of locations: the statement says which members, not in which order",
               "members whose attribute is absent or null take no part in max/min (inverted: they are among the others); "
               "records lacking the attribute take no part in unique/distinct; null values group together",
               "parent(0), negative n, empty / all-null collections under max/min and mixed-kind collections are not judged"]
REACH = [("yamlpath/common/keywordsearches.py", "has_child,_has_concrete_child", "has_child"),
         ("yamlpath/common/keywordsearches.py", "name", "name"),
         ("yamlpath/common/keywordsearches.py", "max,min", "max/min"),
         ("yamlpath/common/keywordsearches.py", "parent", "parent"),
         ("yamlpath/common/keywordsearches.py", "distinct,unique,_track_seen_value", "distinct/unique")]
SIZES = {"quick": 400000, "thorough": 4000000}
REQUIRED_COUNTERS = ["has_child_empty_members_checked", "collector_keyword_name_checked", "minmax_checked", "unique_distinct_checked", "has_child_checked", "parent_checked", "name_checked", "chain_checked", "wildcard_parent_checked", "collector_parent_name_checked", "parent_then_name_checked", "nested_collector_keyword_checked",
                     "reevaluated_with_same_path_object", "multi_branch_minmax_checked", "key_across_aoh_parent_checked"]

WORDS = ["apple", "bob", "cat", "dog", "emu", "fig"]


_CTX = [None, 0]


def run1(data, path):
    try:
        return ("OK", list(Processor(LOG, data).get_nodes(path, mustexist=True)))
    except UnmatchedYAMLPathException:
        return ("OK", [])
    except YAMLPathException as e:
        return ("YPE", str(e)[:120])
    except Exception as e:
        return ("CRASH", "%s: %s" % (type(e).__name__, str(e)[:100]))


def run(data, path):
    """Every third query is evaluated twice through ONE parsed YAMLPath object: what a keyword selects is a function of
    the document and the path, so the second evaluation must select the same locations as the first."""
    _CTX[1] += 1
    ctx = _CTX[0]
    if ctx is None or _CTX[1] % 3:
        return run1(data, path)
    try:
        obj = YAMLPath(path)
    except Exception:
        return run1(data, path)
    first = run1(data, obj)
    second = run1(data, obj)
    ctx.counters["reevaluated_with_same_path_object"] = ctx.counters.get("reevaluated_with_same_path_object", 0) + 1
    def sig(r):
        if isinstance(r, NodeCoords):
            if isinstance(r.node, list) and any(isinstance(x, NodeCoords) for x in r.node):
                return ("collected", tuple(sig(x) for x in r.node))     # (a collector's result list is made anew each time)
            if isinstance(r.node, NodeCoords):
                return ("wrapped", repr(r.parentref), sig(r.node))
            fresh = isinstance(r.parent, list) and any(isinstance(x, NodeCoords) for x in r.parent)
            return (None if fresh else id(r.parent), repr(r.parentref), id(r.node) if yp.is_container(r.node) else repr(r.node))
        return repr(r)
    a = sorted(map(sig, first[1])) if first[0] == "OK" else first
    b = sorted(map(sig, second[1])) if second[0] == "OK" else second
    if a != b and first[0] != "CRASH":
        ctx.violation("second-evaluation-of-a-path-object-differs", {"case": {"doc": yp.dump(data), "query": path, "reuse": True}, "summary": (
            "first %r ; second %r" % ([(r.parentref, repr(r.node)[:30]) for r in first[1][:6]] if first[0] == "OK" else first,
                                      [(r.parentref, repr(r.node)[:30]) for r in second[1][:6]] if second[0] == "OK" else second))})
    return first


def locs(res):
    out = []
    for r in res:
        out.append((id(r.parent), repr(r.parentref), id(r.node)))
    return sorted(out)


def expect_locs(container, refs):
    return sorted((id(container), repr(ref), id(container[ref])) for ref in refs)


def judge(ctx, mech, case, got, want_container, want_refs):
    ctx.evaluations += 1
    if got[0] == "CRASH":
        ctx.count("crash_handed_to_C15")
        return
    if got[0] == "YPE":
        if want_refs:
            ctx.violation(mech + "/error-instead-of-members", {"case": case, "summary": "raised %s ; definition selects %r" % (got[1], want_refs)})
        return
    g = locs(got[1])
    w = expect_locs(want_container, want_refs)
    if g != w:
        shown = [(r.parentref, repr(r.node)[:30]) for r in got[1][:8]]
        ctx.violation(mech, {"case": case, "summary": "got %r ; definition selects refs %r" % (shown, want_refs)})


def gen_scalars(rng):
    kind = rng.choice(["int", "float", "str"])
    n = rng.randrange(1, 8)
    if kind == "int":
        vals = [rng.choice([0, 1, 2, 5, 5, 9, -3, 12, 100] if rng.random() < 0.5 else [-5, -3, -1, 0, 0, 0]) for _ in range(n)]
        txt = [str(v) for v in vals]
    elif kind == "float":
        vals = [rng.choice([0.5, 1.5, 1.5, 2.25, -0.75, 10.5] if rng.random() < 0.5 else [-2.5, -0.5, 0.0, 0.0]) for _ in range(n)]
        txt = [repr(v) for v in vals]
    else:
        vals = [rng.choice(WORDS) for _ in range(n)]
        txt = list(vals)
    # the same value in another spelling (ruamel gives each spelling its own Python class)
    for i in range(n):
        if rng.random() < 0.2:
            if kind == "int" and vals[i] >= 0:
                txt[i] = rng.choice([hex(vals[i]), "0o%o" % vals[i], "&s%d %d" % (i, vals[i])])
            elif kind == "str":
                txt[i] = rng.choice(['"%s"' % vals[i], "'%s'" % vals[i], "&s%d %s" % (i, vals[i])])
            elif kind == "float":
                txt[i] = "&s%d %r" % (i, vals[i])
    # sprinkle nulls
    for i in range(n):
        if rng.random() < 0.12:
            vals[i] = None
            txt[i] = "null"
    return vals, txt, kind


def check_scalar_list(ctx, rng):
    vals, txt, kind = gen_scalars(rng)
    wrap = rng.choice(["root", "key"])
    doc = "[" + ", ".join(txt) + "]"
    base = ""
    if wrap == "key":
        doc = "{k: %s, other: 1}" % doc
        base = "k"
    data = yp.load(doc)
    seq = data if wrap == "root" else data["k"]
    nn = [i for i, v in enumerate(vals) if v is not None]
    if len(vals) >= 2:
        ctx.mark_nontrivial([doc, "scalars"])
    for kw in ("max", "min"):
        if not nn:
            continue
        ext = (max if kw == "max" else min)(vals[i] for i in nn)
        members = [i for i in nn if vals[i] == ext]
        others = [i for i in range(len(vals)) if i not in members]
        for inv in (False, True):
            path = "%s[%s%s()]" % (base, "!" if inv else "", kw)
            case = {"doc": doc, "query": path}
            ctx.counters["minmax_checked"] = ctx.counters.get("minmax_checked", 0) + 1
            judge(ctx, "%s%s/list-of-%s" % ("!" if inv else "", kw, kind), case, run(data, path), seq,
                  others if inv else members)
    if wrap == "key" and len(vals) >= 4 and all(v is not None for v in vals):
        # keywords applied to what other keywords collected: (( k minus its maxima ) minus the minima of the rest), then
        # unique / distinct of what is left - members arrive wrapped more than once
        rest = [v for v in vals if v != max(vals)]
        rest2 = [v for v in rest if rest and v != min(rest)]
        c2 = Counter(repr(v) for v in rest2)
        for kw2, want_vals in (("unique", [v for v in rest2 if c2[repr(v)] == 1]),
                               ("distinct", list(dict((repr(v), v) for v in rest2).values()))):
            q = "((k[!max()])[!min()])[%s()]" % kw2
            ctx.evaluations += 1
            ctx.counters["nested_collector_keyword_checked"] = ctx.counters.get("nested_collector_keyword_checked", 0) + 1
            got = run(data, q)
            if got[0] == "CRASH":
                ctx.count("crash_handed_to_C15")
                continue
            gv = []
            if got[0] == "OK":
                for r in got[1]:
                    u = NodeCoords.unwrap_node_coords(r)
                    gv.extend(u if isinstance(u, list) else [u])
            if got[0] != "OK" and want_vals or sorted(str(yp.scalar_plain(x)[1]) for x in gv) != sorted(str(v) for v in want_vals):
                ctx.violation("%s-over-collected-members/list-of-%s" % (kw2, kind), {"case": {"doc": doc, "query": q},
                              "summary": "got %r ; definition selects %r" % (gv if got[0] == "OK" else got[1], want_vals)})
    cnt = Counter(repr(v) for v in vals)
    uniq = [i for i, v in enumerate(vals) if cnt[repr(v)] == 1]
    dup = [i for i, v in enumerate(vals) if cnt[repr(v)] > 1]
    first = []
    seen = set()
    for i, v in enumerate(vals):
        if repr(v) not in seen:
            seen.add(repr(v))
            first.append(i)
    if not nn:
        return          # an all-null list is indistinguishable from an Array-of-Hashes of nulls: not judged
    for path, want, mech in (("%s[unique()]" % base, uniq, "unique"), ("%s[!unique()]" % base, dup, "!unique"),
                             ("%s[distinct()]" % base, first, "distinct")):
        ctx.counters["unique_distinct_checked"] = ctx.counters.get("unique_distinct_checked", 0) + 1
        judge(ctx, "%s/list-of-%s" % (mech, kind), {"doc": doc, "query": path}, run(data, path), seq, want)


def check_records(ctx, rng):
    """AoH or hash-of-hashes with a shared attribute v (present / absent / repeated / null)."""
    n = rng.randrange(1, 7)
    kind = rng.choice(["int", "int", "float", "str"])
    recs, vals = [], []
    for i in range(n):
        x = rng.random()
        if x < 0.15:
            recs.append("{w: %d}" % i)
            vals.append("ABSENT")
        elif x < 0.27:
            recs.append("{v: null, w: %d}" % i)
            vals.append(None)
        else:
            if kind == "int":
                # zero, negatives: a running extreme that is falsy must still be an extreme
                v = rng.choice([1, 2, 5, 5, 9] if rng.random() < 0.5 else [-5, -3, -1, 0, 0, 0, 2])
            elif kind == "float":
                v = rng.choice([-2.5, -0.5, 0.0, 0.0, 1.5, 1.5, 3.25])
            else:
                v = rng.choice(WORDS[:4] + [""])
            vtxt = repr(v) if kind != "int" else str(v)
            if rng.random() < 0.2:
                # the same value spelled differently
                if kind == "int" and v >= 0:
                    vtxt = rng.choice([hex(v), "&r%d %d" % (i, v)])
                elif kind == "str" and v:
                    vtxt = rng.choice(['"%s"' % v, v, "&r%d %s" % (i, v)])
            recs.append("{v: %s, w: %d}" % (vtxt, i))
            vals.append(v)
    shape = rng.choice(["aoh", "aoh", "hoh"])
    if shape == "aoh":
        doc = "{recs: [%s]}" % ", ".join(recs)
        data = yp.load(doc)
        cont = data["recs"]
        refs = list(range(n))
    else:
        keys = ["r%d" % i for i in range(n)]
        doc = "{recs: {%s}}" % ", ".join("%s: %s" % (k, r) for k, r in zip(keys, recs))
        data = yp.load(doc)
        cont = data["recs"]
        refs = keys
    if n >= 2:
        ctx.mark_nontrivial([doc, "records"])
    have = [i for i, v in enumerate(vals) if v not in ("ABSENT", None)]
    for kw in ("max", "min"):
        if not have:
            continue
        ext = (max if kw == "max" else min)(vals[i] for i in have)
        members = [i for i in have if vals[i] == ext]
        others = [i for i in range(n) if i not in members]
        for inv in (False, True):
            path = "recs[%s%s(v)]" % ("!" if inv else "", kw)
            ctx.counters["minmax_checked"] = ctx.counters.get("minmax_checked", 0) + 1
            judge(ctx, "%s%s/%s-%s" % ("!" if inv else "", kw, shape, kind), {"doc": doc, "query": path},
                  run(data, path), cont, [refs[i] for i in (others if inv else members)])
            if inv or rng.random() < 0.5:
                continue
            # the selected members carry full coordinates: later segments climb / descend from each of them
            for tail, steps_from_member in (("[parent()]", 1), ("[parent(2)]", 2), (".w[parent(2)]", 1), (".w[parent()][parent()]", 1),
                                            ("[parent(3)]", 3)):
                q = path + tail
                ctx.evaluations += 1
                ctx.counters["chain_checked"] = ctx.counters.get("chain_checked", 0) + 1
                got = run(data, q)
                case = {"doc": doc, "query": q}
                if got[0] == "CRASH":
                    ctx.count("crash_handed_to_C15")
                    continue
                if steps_from_member == 3:
                    if got[0] != "YPE":
                        ctx.violation("%s-then-parent/climbs-above-root" % kw, {"case": case, "summary": "got %r" % (
                            [repr(r.node)[:30] for r in got[1]],)})
                    continue
                want_node = cont if steps_from_member == 1 else data
                if got[0] != "OK" or len(got[1]) != len(members) or any(r.node is not want_node for r in got[1]):
                    ctx.violation("%s-then-parent/wrong-ancestor" % kw, {"case": case, "summary": "%d members; got %r" % (
                        len(members), got[1] if got[0] != "OK" else [repr(r.node)[:40] for r in got[1]])})
    # the same keyword segment evaluated once per branch of a multi-match prefix
    if have and shape == "aoh":
        doc2 = "{g: {a: %s, b: %s, c: {recs: []}}}" % (doc, doc.replace("&r", "&q"))
        data2 = yp.load(doc2)
        for kw in ("max", "min"):
            ext = (max if kw == "max" else min)(vals[i] for i in have)
            members = [i for i in have if vals[i] == ext]
            q = "g.*.recs[%s(v)]" % kw
            got = run(data2, q)
            ctx.evaluations += 1
            ctx.counters["multi_branch_minmax_checked"] = ctx.counters.get("multi_branch_minmax_checked", 0) + 1
            wantl = sorted(expect_locs(data2["g"]["a"]["recs"], members) + expect_locs(data2["g"]["b"]["recs"], members))
            if got[0] == "CRASH":
                ctx.count("crash_handed_to_C15")
            elif got[0] != "OK" or locs(got[1]) != wantl:
                ctx.violation("%s/multi-branch" % kw, {"case": {"doc": doc2, "query": q}, "summary": "got %r ; definition selects members %r of each branch" % (
                    got[1] if got[0] != "OK" else [(r.parentref, repr(r.node)[:30]) for r in got[1][:8]], members)})
    # a key name applied ACROSS an Array-of-Hashes (no index, no wildcard): each match still knows the element it came from
    if shape == "aoh":
        for q, want_node in (("recs.w[parent(2)]", cont), ("/recs/w[parent(3)]", data), ("recs.w[parent()][parent()]", cont)):
            got = run(data, q)
            ctx.evaluations += 1
            ctx.counters["key_across_aoh_parent_checked"] = ctx.counters.get("key_across_aoh_parent_checked", 0) + 1
            if got[0] == "CRASH":
                ctx.count("crash_handed_to_C15")
            elif got[0] != "OK" or len(got[1]) != n or any(r.node is not want_node for r in got[1]):
                ctx.violation("key-across-aoh-then-parent/wrong-ancestor", {"case": {"doc": doc, "query": q}, "summary": "%d records; got %r" % (
                    n, got[1] if got[0] != "OK" else [repr(r.node)[:40] for r in got[1]])})
        q = "recs.w[parent()][name()]"
        got = run(data, q)
        ctx.evaluations += 1
        if got[0] == "OK":
            names = [str(NodeCoords.unwrap_node_coords(r)) for r in got[1]]
            if names != [str(i) for i in range(n)]:
                ctx.violation("key-across-aoh-then-parent-name", {"case": {"doc": doc, "query": q}, "summary": "names %r ; the records are elements 0..%d" % (names, n - 1)})
        elif got[0] == "YPE":
            ctx.violation("key-across-aoh-then-parent-name", {"case": {"doc": doc, "query": q}, "summary": "raised %s" % got[1]})
    # name() of each member reached as: collected by a wildcard, descended into, climbed back (buffered results must
    # each keep their own coordinates)
    if n >= 2:
        q = "(recs.*).w[parent()][name()]"
        ctx.evaluations += 1
        ctx.counters["collector_parent_name_checked"] = ctx.counters.get("collector_parent_name_checked", 0) + 1
        got = run(data, q)
        if got[0] == "CRASH":
            ctx.count("crash_handed_to_C15")
        else:
            names = [NodeCoords.unwrap_node_coords(r) for r in got[1]] if got[0] == "OK" else got[1]
            if got[0] != "OK" or [str(x) for x in names] != [str(r) for r in refs]:
                ctx.violation("collector-child-parent-name/%s" % shape, {"case": {"doc": doc, "query": q},
                              "summary": "names %r ; the members are held under %r" % (names, refs)})
    present = [i for i, v in enumerate(vals) if v != "ABSENT"]
    cnt = Counter(repr(vals[i]) for i in present)
    uniq = [i for i in present if cnt[repr(vals[i])] == 1]
    dup = [i for i in present if cnt[repr(vals[i])] > 1]
    first, seen = [], set()
    for i in present:
        if repr(vals[i]) not in seen:
            seen.add(repr(vals[i]))
            first.append(i)
    for path, want, mech in (("recs[unique(v)]", uniq, "unique"), ("recs[!unique(v)]", dup, "!unique"),
                             ("recs[distinct(v)]", first, "distinct")):
        ctx.counters["unique_distinct_checked"] = ctx.counters.get("unique_distinct_checked", 0) + 1
        judge(ctx, "%s/%s-%s" % (mech, shape, kind), {"doc": doc, "query": path}, run(data, path), cont,
              [refs[i] for i in want])
    # has_child on every record (AoH: through the list; hoh: via *)
    for key in ("v", "w", "zz"):
        haskey = [i for i, v in enumerate(vals) if (key == "w") or (key == "v" and v != "ABSENT")]
        lack = [i for i in range(n) if i not in haskey]
        for inv in (False, True):
            path = ("recs[%shas_child(%s)]" if shape == "aoh" else "recs.*[%shas_child(%s)]") % ("!" if inv else "", key)
            ctx.counters["has_child_checked"] = ctx.counters.get("has_child_checked", 0) + 1
            judge(ctx, "%shas_child/%s" % ("!" if inv else "", shape), {"doc": doc, "query": path}, run(data, path), cont,
                  [refs[i] for i in (lack if inv else haskey)])


def check_has_child_empty_members(ctx, rng):
    """has_child applied to an Array-of-Hashes node ITSELF (and, for comparison, to each member through `*`) when some
    members are EMPTY Hashes: an empty Hash lacks every key, so it is a member of every inverted has_child selection."""
    n = rng.randrange(2, 7)
    recs, keysets = [], []
    for i in range(n):
        x = rng.random()
        if x < 0.3:
            recs.append("{}")
            keysets.append(set())
        else:
            ks = set(k for k in ("v", "w", "name") if rng.random() < 0.6)
            recs.append("{%s}" % ", ".join("%s: %s" % (k, rng.choice(["1", "x", "null", "[]", "{}"])) for k in sorted(ks)))
            keysets.append(ks)
    shape = rng.choice(["aoh", "aoh", "hoh"])
    if shape == "aoh":
        doc = "{recs: [%s], o: 1}" % ", ".join(recs)
        refs = list(range(n))
    else:
        refs = ["r%d" % i for i in range(n)]
        doc = "{recs: {%s}, o: 1}" % ", ".join("%s: %s" % (k, r) for k, r in zip(refs, recs))
    data = yp.load(doc)
    cont = data["recs"]
    if any(not k for k in keysets) and any(k for k in keysets):
        ctx.mark_nontrivial([doc, "has_child-empty-members"])
    boolkeys = rng.random() < 0.3
    if boolkeys:
        # Hashes keyed by Booleans next to the String-keyed ones: `true` is not the key `1`, `false` is not the key `0`
        extra = [rng.choice(["{true: x}", "{false: y, v: 1}", "{true: 1, false: 0}"]) for _ in range(rng.randrange(1, 3))]
        for e in extra:
            recs.append(e)
            keysets.append({"v"} if "v:" in e else set())
        n = len(recs)
        if shape == "aoh":
            doc = "{recs: [%s], o: 1}" % ", ".join(recs)
            refs = list(range(n))
        else:
            refs = ["r%d" % i for i in range(n)]
            doc = "{recs: {%s}, o: 1}" % ", ".join("%s: %s" % (k, r) for k, r in zip(refs, recs))
        data = yp.load(doc)
        cont = data["recs"]
        ctx.mark_nontrivial([doc, "has_child-boolean-keys"])
    for key in ("v", "w", "zz") + (("1", "0") if boolkeys else ()):
        has = [i for i in range(n) if key in keysets[i]]
        lack = [i for i in range(n) if key not in keysets[i]]
        for inv in (False, True):
            forms = ["recs[%shas_child(%s)]", "recs.*[%shas_child(%s)]", "/recs/*[%shas_child(%s)]"] if shape == "aoh" else ["recs.*[%shas_child(%s)]"]
            for form in forms:
                path = form % ("!" if inv else "", key)
                ctx.counters["has_child_empty_members_checked"] = ctx.counters.get("has_child_empty_members_checked", 0) + 1
                judge(ctx, "%shas_child/empty-members/%s%s" % ("!" if inv else "", shape, "-via-wildcard" if "*" in form else ""),
                      {"doc": doc, "query": path}, run(data, path), cont, [refs[i] for i in (lack if inv else has)])


def check_collector_then_keyword_name(ctx, rng):
    """name() (and parent()) of members that a keyword or an index has picked out of a COLLECTOR's results: the name is the
    key or index under which the member is held in the DOCUMENT, not its position among the collected results."""
    vals, txt, kind = gen_scalars(rng)
    if any(v is None for v in vals) or len(vals) < 2:
        return
    shape = rng.choice(["map", "list"])
    if shape == "map":
        keys = rng.sample(["pears", "plums", "figs", "kiwis", "limes", "dates", "sloes", "yuzu"], len(vals))
        doc = "{stock: {%s}, o: 1}" % ", ".join("%s: %s" % (k, t) for k, t in zip(keys, txt))
        inner = rng.choice(["/stock/*", "stock.*"])
    else:
        keys = list(range(len(vals)))
        doc = "{stock: [%s], o: 1}" % ", ".join(txt)
        # (not "(/stock)": whether a Collector over a list-valued node stands for the list or for its elements - and so what
        # the parent of a picked element is - is not settled by the statement)
        inner = rng.choice(["/stock/*", "stock.*"])
    data = yp.load(doc)
    cont = data["stock"]
    ctx.mark_nontrivial([doc, "collector-keyword-name"])
    mx, mn = max(vals), min(vals)
    sels = [("[max()]", [i for i, v in enumerate(vals) if v == mx]), ("[min()]", [i for i, v in enumerate(vals) if v == mn]),
            ("[!max()]", [i for i, v in enumerate(vals) if v != mx]), ("[!min()]", [i for i, v in enumerate(vals) if v != mn])]
    j = rng.randrange(len(vals))
    sels.append(("[%d]" % j, [j]))
    # a keyword over what another keyword left: positions in the filtered list differ from indexes in the document
    rest = [i for i, v in enumerate(vals) if v != mn]
    if rest:
        rmx = max(vals[i] for i in rest)
        sels.append(("NESTED", [i for i in rest if vals[i] == rmx]))
    for sel, members in sels:
        if sel == "NESTED":
            if shape != "list":
                continue
            q0 = "(/stock[!min()])[max()]"
        else:
            q0 = "(%s)%s" % (inner, sel)
        for tail, what in (("[name()]", "name"), ("[parent()][name()]", "parent-name"), ("[parent()]", "parent")):
            q = q0 + tail
            ctx.evaluations += 1
            ctx.counters["collector_keyword_name_checked"] = ctx.counters.get("collector_keyword_name_checked", 0) + 1
            got = run(data, q)
            case = {"doc": doc, "query": q}
            if got[0] == "CRASH":
                ctx.count("crash_handed_to_C15")
                continue
            if got[0] != "OK":
                ctx.violation("collector-%s-%s/error" % ("index" if sel[1:2].isdigit() else "keyword", what), {"case": case, "summary": "raised %s" % got[1]})
                continue
            outs = []
            for r in got[1]:
                if what == "parent":
                    u = r
                    while isinstance(u, NodeCoords):
                        u = u.node
                    outs.append(u)
                    continue
                u = NodeCoords.unwrap_node_coords(r)
                outs.extend(u if isinstance(u, list) else [u])
            if what == "name":
                ok = sorted(str(x) for x in outs) == sorted(str(keys[i]) for i in members)
                wanttxt = [keys[i] for i in members]
            elif what == "parent-name":
                ok = all(str(x) == "stock" for x in outs) and len(outs) == len(members)
                wanttxt = ["stock"] * len(members)
            else:
                ok = all(x is cont for x in outs) and len(outs) == len(members)
                wanttxt = "the stock container, %d times" % len(members)
            if not ok:
                ctx.violation("collector-%s-%s" % ("index" if sel[1:2].isdigit() else "keyword", what), {"case": case,
                              "summary": "got %r ; the selected members are held under %r -> %r" % ([repr(x)[:30] for x in outs[:8]], [keys[i] for i in members], wanttxt)})


def check_parent_name(ctx, rng):
    from vf.gen import docs as gd
    from vf.model import edits as E
    text, _ = gd.gen_doc(rng, rng.choice(["N", "U"]), sets=False)
    try:
        data = yp.load(text)
    except yp.LoadError:
        return
    if not isinstance(data, (dict, list)):
        return
    # walk: (node, chain of (container, ref)), build straight paths
    stack = [(data, [], "")]
    nodes = []
    while stack:
        node, chain, path = stack.pop()
        nodes.append((node, chain, path))
        if isinstance(node, dict):
            for k, v in node.items():
                if isinstance(k, str) and k.isalnum() and not k.isdigit():
                    stack.append((v, chain + [(node, k)], path + "/" + k))
                elif isinstance(k, int) and not isinstance(k, bool) and k >= 0 and str(k) not in node:
                    stack.append((v, chain + [(node, k)], path + "/" + str(k)))        # integer keys, addressed by their text
        elif isinstance(node, list) and not yp.is_set(node):
            for i, e in enumerate(node):
                stack.append((e, chain + [(node, i)], path + "/[%d]" % i))
    rng.shuffle(nodes)
    for node, chain, path in nodes[:6]:
        d = len(chain)
        if d == 0:
            continue
        ctx.mark_nontrivial([text, path])
        for n in list(range(1, d + 2)) + [None]:
            q = "%s[parent(%s)]" % (path, "" if n is None else n)
            steps = 1 if n is None else n
            ctx.evaluations += 1
            ctx.counters["parent_checked"] = ctx.counters.get("parent_checked", 0) + 1
            got = run(data, q)
            case = {"doc": text, "query": q}
            if steps > d:
                if got[0] != "YPE":
                    ctx.violation("parent/climbs-above-root", {"case": case, "summary": "depth %d, %d steps: %r" % (
                        d, steps, got[0] if got[0] != "OK" else [repr(r.node)[:30] for r in got[1]])})
                continue
            if got[0] == "CRASH":
                ctx.count("crash_handed_to_C15")
                continue
            anc_chain = chain[:d - steps]
            want_node = chain[d - steps][0]
            if got[0] != "OK" or len(got[1]) != 1 or got[1][0].node is not want_node:
                ctx.violation("parent/wrong-ancestor", {"case": case, "summary": "depth %d, %d steps: got %r" % (
                    d, steps, got[1] if got[0] != "OK" else [repr(r.node)[:40] for r in got[1]])})
                continue
            r = got[1][0]
            if anc_chain:
                pc, pr = anc_chain[-1]
                if r.parent is not pc or r.parentref != pr:
                    ctx.violation("parent/wrong-coordinates", {"case": case, "summary": "parentref %r expected %r" % (r.parentref, pr)})
            elif r.parent is not None:
                ctx.violation("parent/wrong-coordinates", {"case": case, "summary": "root ancestor reported with a parent"})
        # the same climb from every child reached through a wildcard: each child must be handed its own
        # coordinates (a keyword that consumes the caller's ancestry in place breaks the next sibling)
        if isinstance(node, (dict, list)) and not yp.is_set(node) and len(node) >= 1 and rng.random() < 0.6:
            nchild = len(node)
            for n in (None, 1, 2, d + 1, d + 2):
                steps = 1 if n is None else n
                q = "%s/*[parent(%s)]" % (path, "" if n is None else n)
                ctx.evaluations += 1
                ctx.counters["wildcard_parent_checked"] = ctx.counters.get("wildcard_parent_checked", 0) + 1
                got = run(data, q)
                case = {"doc": text, "query": q}
                if got[0] == "CRASH":
                    ctx.count("crash_handed_to_C15")
                    continue
                if steps > d + 1:
                    if got[0] != "YPE":
                        ctx.violation("wildcard-then-parent/climbs-above-root", {"case": case, "summary": "children at depth %d, %d steps: %r" % (
                            d + 1, steps, [repr(r.node)[:30] for r in got[1]])})
                    continue
                want_node = (chain + [(node, None)])[d + 1 - steps][0]
                if got[0] != "OK" or len(got[1]) != nchild or any(r.node is not want_node for r in got[1]):
                    ctx.violation("wildcard-then-parent/wrong-ancestor", {"case": case, "summary": "%d children, %d steps: got %r" % (
                        nchild, steps, got[1] if got[0] != "OK" else [(repr(r.node)[:40], str(r.path)) for r in got[1]])})
        # name() of an ancestor reached by climbing: the key or index under which THAT node is held (of its own type)
        if d >= 2:
            n_up = rng.randrange(1, d)
            q = "%s[parent(%d)][name()]" % (path, n_up)
            ctx.evaluations += 1
            ctx.counters["parent_then_name_checked"] = ctx.counters.get("parent_then_name_checked", 0) + 1
            got = run(data, q)
            want = chain[d - n_up - 1][1]
            if got[0] == "CRASH":
                ctx.count("crash_handed_to_C15")
            else:
                names = [NodeCoords.unwrap_node_coords(r) for r in got[1]] if got[0] == "OK" else None
                if names is None or len(names) != 1 or names[0] != want or type(names[0]) is not type(want) and not (
                        isinstance(want, str) and isinstance(names[0], str)):
                    ctx.violation("parent-then-name/wrong", {"case": {"doc": text, "query": q}, "summary": "expected %r got %r" % (
                        want, names if names is not None else got[1])})
        # name()
        q = "%s[name()]" % path
        ctx.evaluations += 1
        ctx.counters["name_checked"] = ctx.counters.get("name_checked", 0) + 1
        got = run(data, q)
        want = chain[-1][1]
        if got[0] == "CRASH":
            ctx.count("crash_handed_to_C15")
        elif got[0] != "OK" or len(got[1]) != 1 or NodeCoords.unwrap_node_coords(got[1][0]) != want:
            ctx.violation("name/wrong", {"case": {"doc": text, "query": q}, "summary": "expected %r got %r" % (
                want, got[1] if got[0] != "OK" else [NodeCoords.unwrap_node_coords(r) for r in got[1]])})


SEEDS_DOC = [("[{v: 2}, {v: 5}, {w: 9}, {v: 5}, {v: null}]", "[max(v)]", [1, 3]),
             ("[{v: 2}, {v: 5}, {w: 9}, {v: 5}, {v: null}]", "[!max(v)]", [0, 2, 4]),
             ("[3, 1, 3, null]", "[max()]", [0, 2]), ("[3, 1, 3, null]", "[!min()]", [0, 2, 3]),
             ("[b, a, b]", "[unique()]", [1]), ("[b, a, b]", "[distinct()]", [0, 1])]


def run_shard(ctx):
    rng = ctx.rng
    _CTX[0] = ctx
    if ctx.shard == 0:
        for doc, q, want in SEEDS_DOC:
            data = yp.load(doc)
            judge(ctx, "seed/" + q, {"doc": doc, "query": q}, run(data, q), data, want)
            ctx.sample({"doc": doc, "query": q, "definition_selects": want})
    want = SIZES[ctx.tier] // ctx.nshards
    while ctx.evaluations < want:
        x = rng.random()
        if x < 0.35:
            check_scalar_list(ctx, rng)
        elif x < 0.75:
            check_records(ctx, rng)
        elif x < 0.82:
            check_has_child_empty_members(ctx, rng)
        elif x < 0.9:
            check_collector_then_keyword_name(ctx, rng)
        else:
            check_parent_name(ctx, rng)


def replay(w):
    c = w["case"]
    data = yp.load(c["doc"])
    got = run(data, c["query"])
    return {"violated": None, "result": [(r.parentref, repr(r.node)[:40]) for r in got[1]] if got[0] == "OK" else got}


MANIFEST = {
    "level_text": ("Exploration: 6*10^4 (quick) to 1.5*10^6 (thorough) real keyword queries over generated collections "
                   "(ties, repeats, absent and null attributes, both shapes, every keyword x inversion x parameter) and "
                   "parent(n)/name() on every node depth; the oracle is the keyword's definition computed with python "
                   "max/min/Counter/ancestor walk, compared as multisets of locations."),
    "level_note": "Only same-kind collections are judged; order of results is not part of the statement and is not compared.",
    "technique": "runtime differential monitor: keyword query results vs definitional oracle (max/min/Counter/ancestor walk)",
}

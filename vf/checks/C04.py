"""C04 — a delete removes exactly the matched nodes, whatever their number or position.

Target locations come from the reference evaluator on the pre-state; the
expected post-image removes exactly those locations (an ancestor subsumes its
descendants, a node matched twice is removed once); the monitor compares the
whole document image after delete_nodes() and reloads the dump.  Deleting the
root must raise a YAML Path error and change nothing.
"""
from vf.core import yp
from vf.gen import docs as gd
from vf.gen import paths as gp
from vf.checks import editsteps as ES

PROPERTY = "C04"
LEVEL = "exploration"
RULE = ("random documents (regimes N/U/A) and the hostile fixed documents x delete paths of the C01 fragment matching "
        ">=1 node, with forced classes: several matches in one sequence (*, **, searches, pass-through), nested "
        "matches, empty list/map targets, negative indexes, the same node matched twice (** chains, collector +), "
        "matches gathered out of document order (collectors, also with slice operands and with the root among the "
        "members), lists of 11-30 elements (matches on both sides of index 9/10 and 19/20), and the document root; also as steps of edit histories. "
        "Non-trivial = >=1 matched node; distinct by (document, path, step index)")
ASSUMPTIONS = ["set members as delete targets are outside the reference evaluator's addressable locations and are skipped",
               "collector cases are decided by an explicit location list (operands are straight paths)"]
REACH = [("yamlpath/processor.py", "delete_nodes,_delete_nodes", "delete_nodes / _delete_nodes")]
SIZES = {"quick": 40000, "thorough": 800000}
REQUIRED_COUNTERS = ["delete_steps", "delete_root_steps", "delete_steps_double_match", "reload_checked", "long_list_cases",
                     "root_in_collector_cases", "delete_collector_slice_operands", "docs_with_aliased_containers",
                     "shared_array_slice_deletes"]

SEEDS = [
    ("[a, [], b]", [("INDEX", 1)]), ("{a: {}, b: 1}", [("KEY", "a")]), ("[a, b, c]", [("ALL",)]),
    ("[a, b, c, d]", [("SEARCH", False, "=~", ".", "[bd]")]), ("{a: [1, 2, 3]}", [("KEY", "a"), ("INDEX", -1)]),
    ("{a: {b: {c: 1}}, d: 2}", [("TRAVERSE",), ("SEARCH", False, "=~", ".", ".")]),
    ("[[1, 2], [3]]", [("ALL",), ("INDEX", 0)]), ("{a: 1}", []),
    ("[{a: 1, b: 2}, {a: 3}]", [("KEY", "a")]), ("{x: [a, b], y: [a]}", [("TRAVERSE",), ("INDEX", 0)]),
    ("{l: [a, b, c, d, e]}", [("KEY", "l"), ("SLICE", 1, 3)]), ("{l: [a, b, c, d, e]}", [("KEY", "l"), ("SLICE", -3, -1)]),
    ("{p: {1: one, '1': uno, 2: two, keep: me}}", [("KEY", "p"), ("ALL",)]),
    ("{defaults: &defaults {a: 1}, jobs: {defaults: 2, k: 3}}", [("KEY", "jobs"), ("KEY", "defaults")]),
    ("{defaults: &defaults {a: 1}, k: 3}", [("KEY", "defaults")]),
    ("{d: &D {r: 2.5, n: x}, s: {<<: *D, p: 1}}", [("KEY", "d"), ("KEY", "r")]),
    ("{d: &D {r: 2.5, n: x}, s: {<<: *D, p: 1}}", [("KEY", "s"), ("KEY", "p")]),
    ("{defaults: &D1 {name: 'x'}, base: &base {tags: true}, svc0: {<<: *base, base: []}, svc2: {id: 1, base: 0, <<: *D1}}",
     [("TRAVERSE",), ("KEY", "base")]),
    ("{common: &common {name: abc, port: [1, 2]}, svc0: {id: x y, port: null, <<: *common}}", [("TRAVERSE",), ("KEY", "port")]),
]
COLLECTOR_SEEDS = [
    ("[a, b, c]", "([0])+([0])", [(0,)]), ("[a, b, c]", "([2])+([0])", [(0,), (2,)]),
    ("[a, b, c, d]", "([3])+([1])+([0])", [(0,), (1,), (3,)]), ("{l: [a, b, c]}", "(l[1])+(l[0])", [(0, 0), (0, 1)]),
    ("[a, b, c]", "([0:2])+([1])", [(0,), (1,)]), ("[a, b, c, d, e]", "([1:3])+([0])", [(0,), (1,), (2,)]),
    ("{l: [a, b, c, d, e]}", "(/l[1:3])+(/l[0])", [(0, 0), (0, 1), (0, 2)]),
]


def collector_case(ctx, doc, path, locs):
    from vf.core.yp import Processor, LOG, YAMLPathException
    from vf.model import edits as E
    data = yp.load(doc)
    img0 = E.image(data)
    expected = E.apply_delete(img0, locs)
    case = {"doc": doc, "path": path, "segs": None, "history": []}
    ctx.evaluations += 1
    ctx.count("delete_steps")
    ctx.count("delete_collector_cases")
    if len(set(locs)) < 3 and "+([0])" in path and path.startswith("([0])"):
        ctx.count("delete_steps_double_match")
    ctx.mark_nontrivial([doc, path])
    try:
        for _ in Processor(LOG, data).delete_nodes(path):
            pass
    except YAMLPathException as e:
        ctx.violation("delete/refused/%s" % type(e).__name__, {"case": case, "summary": str(e)[:150]})
        return
    except Exception as e:
        ctx.violation("delete/crash/%s@%s" % (type(e).__name__, ES.where(e)), {"case": case, "summary": repr(e)[:150]})
        return
    actual = E.image(data)
    if actual != expected:
        df = E.diff(expected, actual)
        ctx.violation("delete/collector/" + "+".join(sorted({m.split()[0] for _l, m in df})), {
            "case": case, "summary": "differs from model at %r ; after=%r" % (df[:3], yp.dump(data)[:120])})


def merge_ref_case(ctx, rng):
    """`hash[&anchor]` names a YAML Merge Key reference: deleting it removes that reference and nothing else."""
    from vf.core.yp import Processor, LOG, YAMLPathException
    from vf.model import edits as E
    text = gd.gen_merge_doc(rng)
    data = yp.to_block(yp.load(text))
    # one reference per inheritor: with several, which of two equal sources goes and what the mapping then
    # inherits from the others is ruamel bookkeeping the property does not speak about
    cands = [(i, k, v) for i, (k, v) in enumerate(data.items()) if isinstance(v, dict) and len(yp.merge_refs(v)) == 1]
    if not cands:
        return
    i, k, v = rng.choice(cands)
    an = rng.choice(yp.merge_refs(v))
    src = next(m for (_p, m) in v.merge if yp.anchor_of(m) == an)
    if any(kk in src and src[kk] == vv for kk, vv in yp.own_items(v)):
        ctx.count("merge_ref_own_value_equals_inherited_skipped")   # unspecified: such own keys are removed too
        return
    path = "%s[&%s]" % (k, an)
    img0 = E.image(data)
    expected = E.image(data)
    node = E.get(expected, (i,))
    node["merge"] = [a for a in node["merge"] if a != an]
    if not node["merge"]:
        del node["merge"]
    case = {"doc": text, "path": path, "segs": None, "history": []}
    ctx.evaluations += 1
    ctx.count("delete_merge_reference_cases")
    ctx.mark_nontrivial([text, path])
    try:
        for _ in Processor(LOG, data).delete_nodes(path):
            pass
    except YAMLPathException as e:
        ctx.violation("delete/merge-ref/refused/%s" % type(e).__name__, {"case": case, "summary": str(e)[:150]})
        return
    except Exception as e:
        ctx.violation("delete/merge-ref/crash/%s@%s" % (type(e).__name__, ES.where(e)), {"case": case, "summary": repr(e)[:150]})
        return
    actual = E.image(data)
    if actual != expected:
        df = E.diff(expected, actual)
        ctx.violation("delete/merge-ref/" + "+".join(sorted({m.split()[0] for _l, m in df})), {
            "case": case, "summary": "differs from model at %r ; after=%r" % (df[:3], yp.dump(data)[:200])})
        return
    ES.reload_check(ctx, data, case, "delete/merge-ref", reload_claimed=False)


def long_list_case(ctx, rng):
    """Lists of 11-30 elements: matches on both sides of the one-digit / two-digit index boundary (and beyond 19 / 20)."""
    n = rng.randrange(11, 31)
    pool = rng.choice([["a", "b", "c"], ["1", "2", "x"], ["k", "k", "z", "ab"]])
    if rng.random() < 0.3:
        elems = ["{up: %s, n: %d}" % (rng.choice(["true", "false"]), i) for i in range(n)]
    else:
        elems = [rng.choice(pool) for _ in range(n)]
    text = "{l: [%s], other: [x, y]}" % ", ".join(elems)
    data = yp.load(text)
    a, b = sorted(rng.sample(range(n + 1), 2))
    cands = [[("KEY", "l"), ("SLICE", a, b)], [("KEY", "l"), ("SLICE", a - n, b - n)] if b < n and a < n else [("KEY", "l"), ("ALL",)],
             [("KEY", "l"), ("ALL",)], [("TRAVERSE",), ("SEARCH", False, "=", ".", rng.choice(pool))],
             [("KEY", "l"), ("SEARCH", False, "=~", ".", "^[%s]" % rng.choice(pool)[0])],
             [("KEY", "l"), ("SEARCH", rng.random() < 0.5, "=", "up", "false")], [("KEY", "l"), ("SEARCH", False, "=", ".", rng.choice(pool))],
             [("KEY", "l"), ("INDEX", rng.randrange(n))], [("KEY", "l"), ("INDEX", -rng.randrange(1, n + 1))]]
    segs = rng.choice(cands)
    ctx.count("long_list_cases")
    if not ES.step_delete(ctx, data, text, segs, "delete", [], reload_claimed=False):
        return
    if isinstance(data, dict) and isinstance(data.get("l"), list) and len(data["l"]) >= 11 and rng.random() < 0.5:
        # a second delete on the shortened list (history of length two)
        m = len(data["l"])
        ES.step_delete(ctx, data, text, [("KEY", "l"), ("SLICE", max(0, m - 12), m - 1)], "delete", [["delete", gp.render(segs, ".")]],
                       reload_claimed=False)


def root_in_collector_case(ctx, rng):
    """A Collector whose members include the document root: refused as a whole, nothing deleted."""
    from vf.core.yp import Processor, LOG, YAMLPathException
    from vf.model import edits as E
    text, _ = gd.gen_doc(rng, "N", sets=False)
    try:
        data = yp.load(text)
    except yp.LoadError:
        return
    if not isinstance(data, dict) or not len(data):
        return          # a Collector expands a list result into its elements: (/) over a root list is not the root
    ks = [k for k in data if isinstance(k, str) and k.isalnum() and not k.lstrip("-").isdigit()]
    if not ks:
        return
    others = []
    for _ in range(rng.choice([1, 2])):
        k = rng.choice(ks)
        v = data[k]
        if isinstance(v, list) and not yp.is_set(v) and len(v) and rng.random() < 0.6:
            others.append("/%s[%d]" % (k, rng.randrange(len(v))))
        elif isinstance(v, dict) and len(v) and rng.random() < 0.6 and all(isinstance(kk, str) and kk.isalnum() and not kk.lstrip("-").isdigit() for kk in v):
            others.append("/%s/%s" % (k, rng.choice(list(v))))
        else:
            others.append("/" + k)
    ops = ["(/)"] + ["(%s)" % o for o in others]
    rng.shuffle(ops)
    path = "+".join(ops)
    img0 = E.image(data)
    case = {"doc": text, "path": path, "segs": None, "history": []}
    ctx.evaluations += 1
    ctx.count("delete_steps")
    ctx.count("delete_root_steps")
    ctx.count("root_in_collector_cases")
    ctx.mark_nontrivial([text, path])
    try:
        for _ in Processor(LOG, data).delete_nodes(path):
            pass
        raised = None
    except YAMLPathException as e:
        raised = e
    except Exception as e:
        ctx.violation("delete/crash/%s@%s" % (type(e).__name__, ES.where(e)), {"case": case, "summary": repr(e)[:150]})
        return
    if raised is None:
        ctx.violation("delete/root-not-refused", {"case": case, "summary": "a Collector holding the root was deleted without an error"})
    if E.image(data) != img0:
        ctx.violation("delete/root-refused-but-changed", {"case": case, "summary": "document changed: %r ; now %r" % (
            E.diff(img0, E.image(data))[:3], yp.dump(data)[:150])})


def run_shard(ctx):
    rng = ctx.rng
    if ctx.shard == 0:
        for d, segs in SEEDS:
            ES.step_delete(ctx, yp.load(d), d, segs, "delete", [])
            ctx.sample({"doc": d, "path": gp.render(segs, ".")})
        for d, p, locs in COLLECTOR_SEEDS:
            collector_case(ctx, d, p, locs)
    want = SIZES[ctx.tier] // ctx.nshards
    n = 0
    while ctx.counters.get("delete_steps", 0) < want:
        x = rng.random()
        if x < 0.03:
            merge_ref_case(ctx, rng)
            continue
        if x < 0.09:
            long_list_case(ctx, rng)
            continue
        if x < 0.12:
            root_in_collector_case(ctx, rng)
            continue
        if x < 0.1:
            text = rng.choice(gd.HOSTILE)
        elif x < 0.25:
            text = gd.gen_merge_doc(rng)          # `<<` merge keys, keys spelled like mapping anchors
            ctx.count("docs_with_merge_keys")
        elif x < 0.35:
            text, _ = gd.gen_doc(rng, "N", keys=gd.KEYS_TWIN)      # sibling keys 1 / '1', 1.5 / '1.5', true / 'true'
            ctx.count("docs_with_twin_keys")
        elif x < 0.42:
            text = gd.gen_aliased_container_doc(rng)               # one container object reachable at two paths
            ctx.count("docs_with_aliased_containers")
        else:
            text, _ = gd.gen_doc(rng, rng.choice(["N", "U", "A"]))
        try:
            data = yp.load(text)
        except yp.LoadError:
            continue
        if not isinstance(data, (dict, list)) or yp.is_set(data):
            continue
        if "<<" in text:
            yp.to_block(data)
        if not ES.roundtrips(data):
            ctx.count("doc_does_not_roundtrip_unedited_skipped")
            continue
        # random collector of straight index paths into a top-level / first list (out-of-order, duplicates)
        scal = [i for i, e in enumerate(data) if not isinstance(e, (dict, list)) and not yp.is_set(e)] \
            if isinstance(data, list) else []
        if len(scal) >= 2 and rng.random() < 0.3:
            # collector operands select scalars only (a collector expands container results)
            ops, locs = [], []
            for _ in range(rng.choice([2, 2, 3])):
                i = rng.choice(scal)
                j = i + rng.choice([1, 2, 3])
                if rng.random() < 0.35 and all(k in scal for k in range(i, min(j, len(data)))):
                    ops.append("([%d:%d])" % (i, j))                     # a slice operand (its members are wrapped)
                    locs += [(k,) for k in range(i, min(j, len(data)))]
                    ctx.count("delete_collector_slice_operands")
                else:
                    ops.append("([%d])" % i)
                    locs.append((i,))
            collector_case(ctx, text, "+".join(ops), locs)
            if len(set(locs)) < len(locs):
                ctx.count("delete_steps_double_match")
            continue
        hist = []
        if rng.random() < 0.03:
            # one Array held at two places (anchor + alias), sliced through both routes at once: each element goes once
            n1, n2 = rng.randrange(3, 7), rng.randrange(3, 6)
            text = "{nested: [&row [%s], *row, [%s]], defaults: &ports [%s], web: *ports, admin: [22, 2222, 3389]}" % (
                ", ".join("r%d" % i for i in range(n1)), ", ".join("v%d" % i for i in range(n2)), ", ".join(str(80 + i) for i in range(n1)))
            data = yp.load(text)
            i = rng.randrange(0, 3)
            j = i + rng.choice([1, 2, 3])
            if rng.random() < 0.25:
                i, j = -rng.choice([2, 3]), rng.choice([0, -1])
            segs = rng.choice([[("KEY", "nested"), ("ALL",), ("SLICE", i, j)], [("ALL",), ("SLICE", i, j)],
                               [("KEY", "nested"), ("INDEX", 1), ("SLICE", i, j)], [("TRAVERSE",), ("SLICE", i, j)]])
            ctx.count("shared_array_slice_deletes")
            ES.step_delete(ctx, data, text, segs, "delete", hist, reload_claimed=False)
            continue
        for step in range(rng.choice([1, 1, 2, 3])):
            vocab = gp.doc_vocab(data)
            ok = False
            for _ in range(5):
                x = rng.random()
                if x < 0.04:
                    segs = []
                elif x < 0.3:
                    segs = rng.choice([[("ALL",)], [("TRAVERSE",)], [("ALL",), ("ALL",)],
                                       [("TRAVERSE",), ("INDEX", rng.choice([0, -1, 1]))],
                                       [("TRAVERSE",), ("SEARCH", rng.random() < 0.3, "=~", ".", rng.choice([".", "a", "^$"]))],
                                       [("TRAVERSE",), ("KEY", rng.choice(vocab["keys"] or ["a"]))],
                                       [("ALL",), ("TRAVERSE",)]])
                else:
                    segs = gp.PathGen(rng, vocab, hslice=False).path()
                if ES.step_delete(ctx, data, text, segs, "delete", hist, reload_claimed=False):
                    hist.append(["delete", gp.render(segs, ".")])
                    ok = True
                    break
            if not ok or not isinstance(data, (dict, list)):
                break
        n += 1
        if n <= 2 and hist:
            ctx.sample({"doc": text, "history": hist})


def replay(w):
    from vf.checks.C03 import replay as r3
    return r3(w)


MANIFEST = {
    "level_text": ("Exploration: 4*10^4 (quick) to 8*10^5 (thorough) monitored delete steps; after every delete the whole "
                   "document image is compared with the pre-image minus exactly the locations the independent reference "
                   "evaluator selects (ancestors subsume descendants, duplicates removed once), the dump is strictly "
                   "reloaded, and deleting the root must raise a YAML Path error leaving the image unchanged."),
    "level_note": ("Targets come from my reference evaluator (undecided cases skipped and counted); collector deletes use "
                   "explicit straight index operands only."),
    "technique": "runtime frame monitor: whole-document image before/after each delete vs plain-data model; root-refusal contract",
}

"""Shared edit-step drivers (set / delete / create) with the plain-data oracle.

Each step runs the real Processor on the live document and compares the
document image afterwards with the image predicted by vf.model.edits from the
*pre*-image and the target locations computed by the reference evaluator
(vf.model.pathsem) on the pre-state.  Used by C03, C04 and C09.
"""
import re

from vf.core import yp
from vf.core.yp import Processor, YAMLPathException, LOG
from vf.gen import paths as gp
from vf.model import edits as E
from vf.model import pathsem as PS
from yamlpath.exceptions import UnmatchedYAMLPathException, NoDocumentYAMLPathException

VALUES = [9, 0, 1, -3, 2.5, 2.0, 100.0, -7.0, 1e-3, True, False, None, "zz", "new value", "", "a", "b", "x y",
          1e-16, -2.5e-17, 0.000123456789012345, 1.0 / 3, 1.2345678901234567e+20, 123456789.123456789]      # floats that 15 decimals cannot hold


def where(exc):
    tb = exc.__traceback__
    w = "?"
    while tb is not None:
        fn = tb.tb_frame.f_code.co_filename
        if "/yamlpath/" in fn:
            w = "%s:%s" % (fn.rsplit("/", 1)[-1], tb.tb_frame.f_code.co_name)
        tb = tb.tb_next
    return w


def targets_for(data, segs, need_scalar=True, allow_root=False):
    """Target locations by the reference evaluator, or None to abstain."""
    ev = PS.Evaluator(segs)
    try:
        res = ev.run(data)
    except (PS.Documented, PS.Abstain):
        return None
    if not res or any(not p.sure for p in res):
        return None
    if any(p.kind == "s" for p in res):
        return None                      # set members as edit targets: outside the fragment
    if any(p.kind == "root" for p in res) and not allow_root:
        return None
    if need_scalar and any(not PS.is_scalar(p.node) for p in res):
        return None
    # through-set ancestry: not addressable in the image
    return res


MERGE_LIST_DEFINES_ANCHOR = re.compile(r"<<: \[.*&[A-Za-z0-9_]+ [^\]\n,{}]+: ")


def unlisted_inheritors(data):
    """Mappings that merge a source whose ruamel referer list does not hold them (by identity)."""
    out, seen = [], set()

    def walk(n):
        if id(n) in seen:
            return
        seen.add(id(n))
        if isinstance(n, dict):
            for (_i, m) in (getattr(n, "merge", None) or []):
                if not any(r is n for r in getattr(m, "_ref", [])):
                    out.append(n)
                walk(m)
            for v in n.values():
                walk(v)
        elif isinstance(n, list) and not yp.is_set(n):
            for e in n:
                walk(e)
    walk(data)
    return out


def reload_check(ctx, data, case, prefix, reload_claimed=True):
    try:
        text2 = yp.dump(data)
    except Exception as e:
        ctx.violation(prefix + "/dump-raises/%s" % type(e).__name__, {"case": case, "summary": repr(e)[:200]})
        return
    try:
        d2 = yp.load(text2)
    except yp.LoadError:
        mech = prefix + "/does-not-reload"
        if MERGE_LIST_DEFINES_ANCHOR.search(text2):
            # ruamel writes a `<<: [..]` list in flow style and, when the anchored source mapping was deleted
            # from its own key, defines it there as `&a k: v` without braces - which no YAML loader accepts
            mech += "/merge-list-defines-anchor"
            if not reload_claimed:
                ctx.count("unreloadable_merge_list_reported_under_C03")
                return
        ctx.violation(mech, {"case": case, "summary": "dump does not reload: %r" % text2[:300]})
        return
    # "reloads to the same data": anchor *names* are not data (ruamel itself drops the anchor of a
    # never-aliased `&A 0` on load); the strict loader already rejects duplicate / undefined anchors
    a, b = E.strip_anchors(E.image(data)), E.strip_anchors(E.image(d2))
    if a != b:
        df = E.diff(a, b)
        ctx.violation(prefix + "/reload-differs", {
            "case": case, "summary": "reload differs at %r ; dump=%r" % (df[:3], text2[:300])})
    elif E.effective(data) != E.effective(d2):
        mech = prefix + "/reload-differs-inherited"
        if unlisted_inheritors(data):
            # ruamel's CommentedMap.add_referent() keeps its list of inheritors free of *equal* entries (`not in`), so of
            # two inheritors with equal content only one is ever refreshed when the merge source changes
            mech += "/inheritor-missing-from-ruamel-referer-list"
        ctx.violation(mech, {
            "case": case, "summary": "what mappings inherit through << differs after reload; dump=%r" % text2[:300]})
    ctx.count("reload_checked")


def classify_set_diff(data_before_positions, img0, expected, actual, targets, value):
    """Mechanism signature of an unexpected post-image (C03)."""
    df = E.diff(expected, actual)
    if not df:
        return "image-differs-untraced"
    tset = set(targets)
    kinds = set()
    for loc, msg in df:
        if msg.startswith("keys"):
            kinds.add("key-renamed-or-reordered")
        elif msg.startswith("set "):
            kinds.add("set-bystander-changed")
        elif loc in tset:
            kinds.add("target-not-updated" if msg.startswith("value") else "target-" + msg.split()[0])
        elif msg.startswith("value"):
            # sibling of a target in the same parent sequence/map?
            sib = any(len(t) == len(loc) and t[:-1] == loc[:-1] for t in tset)
            kinds.add("sibling-bystander-changed" if sib else "distant-bystander-changed")
        else:
            kinds.add("bystander-" + msg.split()[0])
    return "+".join(sorted(kinds))


def step_set(ctx, data, doc_text, segs, value, prefix="set", history=None):
    """Returns True if the step was executed (not abstained)."""
    res = targets_for(data, segs)
    if res is None:
        ctx.count("abstain_targets")
        return False
    try:
        ptext = gp.render(segs, ".")
    except ValueError:
        return False
    if ptext.startswith("/"):
        return False
    targets = [E.own_loc(data, p.ord) for p in res]
    if any(t is None for t in targets):
        if len(res) == 1 and value is not None:
            return step_set_inherited(ctx, data, doc_text, segs, value, res[0], prefix, history)
        ctx.count("abstain_target_inherited_through_merge_key")
        return False
    locs = set(targets)
    for p in res:
        for l in E.alias_sites(data, p.node):
            locs.add(l)
    if value is None and any(yp.anchor_of(p.node) for p in res):
        # a null cannot carry an anchor in ruamel: what the document should look like afterwards is not
        # specified, but the set must still not crash and its result must still reload
        ctx.count("null_onto_anchored_crash_and_reload_only")
        try:
            ptext = gp.render(segs, ".")
        except ValueError:
            return False
        if ptext.startswith("/"):
            return False
        case = {"doc": doc_text, "path": ptext, "segs": segs, "value": repr(value), "history": list(history or []),
                "state_before": yp.dump(data) if history else None}
        ctx.evaluations += 1
        try:
            Processor(LOG, data).set_value(ptext, value, mustexist=True)
        except YAMLPathException:
            return True
        except Exception as e:
            ctx.violation(prefix + "/crash/%s@%s" % (type(e).__name__, where(e)), {
                "case": case, "summary": "%s: %s" % (type(e).__name__, str(e)[:150])})
            return True
        reload_check(ctx, data, case, prefix)
        return True
    img0 = E.image(data)
    try:
        for l in locs:
            E.get(img0, l)
    except (KeyError, IndexError):
        ctx.count("abstain_unaddressable")
        return False
    expected = E.apply_set(img0, sorted(locs), value)
    case = {"doc": doc_text, "path": ptext, "segs": segs, "value": repr(value), "history": list(history or []),
            "state_before": yp.dump(data) if history else None}
    ctx.evaluations += 1
    ctx.count("set_steps")
    try:
        Processor(LOG, data).set_value(ptext, value, mustexist=True)
    except YAMLPathException as e:
        ctx.violation(prefix + "/refused/%s" % type(e).__name__, {
            "case": case, "summary": "set of existing scalar(s) refused: %s" % str(e)[:150]})
        return True
    except Exception as e:
        ctx.violation(prefix + "/crash/%s@%s" % (type(e).__name__, where(e)), {
            "case": case, "summary": "%s: %s" % (type(e).__name__, str(e)[:150])})
        return True
    actual = E.image(data)
    n_alias = len(locs) - len(set(targets))
    ctx.mark_nontrivial([doc_text, ptext, repr(value), len(history or [])])
    if n_alias:
        ctx.count("set_steps_with_aliases")
    if actual != expected:
        mech = classify_set_diff(None, img0, expected, actual, sorted(locs), value)
        ctx.violation(prefix + "/" + mech, {"case": case, "summary": "differs from model at %r" % (
            E.diff(expected, actual)[:3],)})
    reload_check(ctx, data, case, prefix)
    return True


def step_set_inherited(ctx, data, doc_text, segs, value, pos, prefix, history):
    """The one matched scalar is a key its mapping only INHERITS through `<<`: after the set the path must resolve to the
    new value (an override in that mapping - or, for an anchored scalar, a change of the shared node), the set must not
    be a silent no-op, and nothing but that mapping / that shared node may change."""
    try:
        ptext = gp.render(segs, ".")
    except ValueError:
        return False
    if ptext.startswith("/") or pos.kind != "k" or any(sg[0] not in ("KEY", "INDEX") for sg in segs):
        ctx.count("abstain_target_inherited_through_merge_key")
        return False
    holder_loc = E.own_loc(data, pos.ord[:-1])
    if holder_loc is None:
        ctx.count("abstain_target_inherited_through_merge_key")
        return False
    case = {"doc": doc_text, "path": ptext, "segs": segs, "value": repr(value), "history": list(history or []),
            "state_before": yp.dump(data) if history else None}
    img0 = E.image(data)
    anchored = yp.anchor_of(pos.node) is not None
    pos_src_locs = sorted(loc for (loc, n, _p, _r) in E.positions(data) if n is pos.node and loc)
    ctx.evaluations += 1
    ctx.count("set_steps")
    ctx.count("set_inherited_key_steps")
    try:
        Processor(LOG, data).set_value(ptext, value, mustexist=True)
    except YAMLPathException as e:
        ctx.violation(prefix + "/refused/%s" % type(e).__name__, {"case": case, "summary": str(e)[:150]})
        return True
    except Exception as e:
        ctx.violation(prefix + "/crash/%s@%s" % (type(e).__name__, where(e)), {"case": case, "summary": repr(e)[:150]})
        return True
    ctx.mark_nontrivial([doc_text, ptext, repr(value), "inherited"])
    try:
        got = list(Processor(LOG, data).get_nodes(ptext, mustexist=True))
    except Exception:
        got = []
    if len(got) != 1 or list(yp.scalar_plain(got[0].node)) != list(yp.scalar_plain(value)):
        ctx.violation(prefix + "/inherited-key/path-does-not-hold-the-value", {"case": case, "summary": "after the set the path gives %r" % (
            [repr(g.node) for g in got],)})
        return True
    if not anchored:
        # two faithful outcomes: the inheriting mapping gets its own override (appended to its own keys), or the shared
        # node itself - which lives in the merge source - takes the value (ruamel's scalar wrappers are replaced wherever
        # the very same object is held); anything else changed is a bystander
        import copy
        actual = E.image(data)
        exp_b = copy.deepcopy(img0)
        E.get(exp_b, holder_loc)["items"].append([E.key_image(pos.ref), E.value_image(value)])
        src_locs = pos_src_locs
        exp_a = E.apply_set(img0, src_locs, value) if src_locs else None
        # (where among the mapping's own keys the override appears is not specified: it is compared at the end)
        actual_b = copy.deepcopy(actual)
        try:
            items = E.get(actual_b, holder_loc)["items"]
            ki = E.key_image(pos.ref)
            mine = [kv for kv in items if kv[0] == ki]
            if len(mine) == 1:
                items.remove(mine[0])
                items.append(mine[0])
        except (KeyError, IndexError, TypeError):
            pass
        if actual_b != exp_b and actual != exp_a:
            ctx.violation(prefix + "/inherited-key/bystander-changed", {"case": case, "summary": "neither 'own override appended' (%r) nor "
                          "'shared source node updated' (%r)" % (E.diff(exp_b, actual)[:2], E.diff(exp_a, actual)[:2] if exp_a else None)})
            return True
    reload_check(ctx, data, case, prefix)
    return True


def step_delete(ctx, data, doc_text, segs, prefix="delete", history=None, reload_claimed=True):
    res = targets_for(data, segs, need_scalar=False, allow_root=True)
    if res is None:
        ctx.count("abstain_targets")
        return False
    try:
        ptext = gp.render(segs, ".")
    except ValueError:
        return False
    if ptext.startswith("/"):
        return False
    case = {"doc": doc_text, "path": ptext, "segs": segs, "history": list(history or []),
            "state_before": yp.dump(data) if history else None}
    img0 = E.image(data)
    root = any(p.kind == "root" for p in res)
    locs = [E.own_loc(data, p.ord) for p in res]
    if any(l is None for l in locs):
        ctx.count("abstain_target_inherited_through_merge_key")
        return False
    # an aliased container is ONE node: a child deleted from it is gone at every path that reaches the container
    allpos = E.positions(data)
    if any(yp.is_container(n) and yp.anchor_of(n) is not None for (_l, n, _p, _r) in allpos):
        extra = []
        for p in res:
            if p.parent is not None:
                for (loc, _n, par, ref) in allpos:
                    same = (loc[-1] == p.ord[-1]) if isinstance(par, list) else (type(ref) is type(p.ref) and ref == p.ref)
                    if par is p.parent and same and loc not in locs and loc not in extra:
                        extra.append(loc)
        if extra:
            ctx.count("delete_targets_inside_aliased_container")
            locs = locs + extra
    ctx.evaluations += 1
    ctx.count("delete_steps")
    try:
        for _ in Processor(LOG, data).delete_nodes(ptext):
            pass
        raised = None
    except YAMLPathException as e:
        raised = e
    except Exception as e:
        ctx.violation(prefix + "/crash/%s@%s" % (type(e).__name__, where(e)), {
            "case": case, "summary": "%s: %s" % (type(e).__name__, str(e)[:150])})
        return True
    actual = E.image(data)
    ctx.mark_nontrivial([doc_text, ptext, len(history or [])])
    if root:
        ctx.count("delete_root_steps")
        if raised is None:
            ctx.violation(prefix + "/root-not-refused", {"case": case, "summary": "deleting the root raised nothing"})
        if actual != img0:
            ctx.violation(prefix + "/root-refused-but-changed", {
                "case": case, "summary": "document changed: %r" % (E.diff(img0, actual)[:3],)})
        return True
    if raised is not None:
        ctx.violation(prefix + "/refused/%s" % type(raised).__name__, {
            "case": case, "summary": "delete of matched nodes refused: %s" % str(raised)[:150]})
        return True
    try:
        expected = E.apply_delete(img0, locs)
    except (KeyError, IndexError):
        ctx.count("abstain_unaddressable")
        return True
    if len(set(locs)) < len(locs):
        ctx.count("delete_steps_double_match")
    if actual != expected:
        df = E.diff(expected, actual)
        kinds = sorted({m.split()[0] for _l, m in df})
        ctx.violation(prefix + "/" + "+".join(kinds), {"case": case, "summary": "differs from model at %r" % (df[:3],)})
    reload_check(ctx, data, case, prefix, reload_claimed)
    return True


# ---------------------------------------------------------------------------
# creation (C09): straight key/index path, existing prefix + missing tail
ANY = {"t": "any"}


def match(exp, act):
    """exp may contain ANY wildcards (list padding)."""
    if exp.get("t") == "any":
        return True
    if exp["t"] != act["t"] or exp.get("a") != act.get("a"):
        return False
    if exp["t"] == "s":
        return exp["v"] == act["v"]
    if exp["t"] == "set":
        return exp["items"] == act["items"]
    if len(exp["items"]) != len(act["items"]):
        return False
    if exp["t"] == "map":
        return all(ke == ka and match(ce, ca) for (ke, ce), (ka, ca) in zip(exp["items"], act["items"]))
    return all(match(ce, ca) for ce, ca in zip(exp["items"], act["items"]))


def build_tail(rest, value):
    if not rest:
        return E.value_image(value)
    s = rest[0]
    if s[0] == "INDEX":
        return {"t": "seq", "a": None, "items": [dict(ANY) for _ in range(s[1])] + [build_tail(rest[1:], value)]}
    return {"t": "map", "a": None, "items": [[["str", s[1]], build_tail(rest[1:], value)]]}


def gen_creation(rng, data):
    """(segs, prefix_loc, tail) or None: a straight path with an existing prefix and a missing tail."""
    segs, loc, node = [], (), data
    depth = rng.randrange(0, 4)
    for _ in range(depth):
        if isinstance(node, dict) and len(node):
            keys = [(i, k) for i, (k, _v) in enumerate(yp.own_items(node))
                    if isinstance(k, str) and k.isalnum() and not k.lstrip("-").isdigit()]
            if not keys:
                break
            i, k = rng.choice(keys)
            if not isinstance(node[k], (dict, list)) or yp.is_set(node[k]):
                break
            segs.append(("KEY", str(k)))
            loc += (i,)
            node = node[k]
        elif isinstance(node, list) and not yp.is_set(node) and len(node):
            cands = [i for i, e in enumerate(node) if isinstance(e, (dict, list)) and not yp.is_set(e)]
            if not cands:
                break
            i = rng.choice(cands)
            segs.append(rng.choice([("INDEX", i), ("KEY", str(i))]))
            loc += (i,)
            node = node[i]
        else:
            break
    if yp.is_set(node) or not isinstance(node, (dict, list)):
        return None
    # an existing prefix may also end at a null (an empty placeholder, `key:`): the rest of the path is created in its place
    nulls = ([(i, k) for i, (k, v) in enumerate(yp.own_items(node)) if v is None and isinstance(k, str) and k.isalnum()
              and not k.lstrip("-").isdigit()] if isinstance(node, dict) else [(i, i) for i, v in enumerate(node) if v is None])
    if nulls and rng.random() < 0.35:
        i, ref = rng.choice(nulls)
        segs.append(("KEY", ref) if isinstance(node, dict) else ("INDEX", ref))
        loc += (i,)
        node = None
    tail = []
    if node is None:
        cur_kind, cur_len, existing = rng.choice(["map", "seq"]), 0, set()
    else:
        cur_kind = "map" if isinstance(node, dict) else "seq"
        cur_len = len(node)
        existing = set(str(k) for k in node.keys()) if isinstance(node, dict) else set()
    for j in range(rng.randrange(1, 4)):
        if cur_kind == "map":
            # (also names that must be escaped in a path: the created key is the *unescaped* text)
            k = rng.choice(["n1", "n2", "zz", "new", "k9", "a.b", "x/y", "sp ace", "app.example.com"] + (["7", "0"] if j else []))
            while k in existing:
                k = k + "x"
            tail.append(("KEY", k))
        else:
            idx = cur_len + rng.choice([0, 0, 1, 3])
            tail.append(rng.choice([("INDEX", idx), ("INDEX", idx), ("KEY", str(idx))]))
        # what the next created container will be is decided by the following segment
        nxt = rng.choice(["map", "seq"])
        cur_kind, cur_len, existing = nxt, 0, set()
        if j + 1 < 3:
            pass
    # make the tail self-consistent: the kind created at step j is given by segment j+1's type
    fixed = [tail[0]]
    for j in range(1, len(tail)):
        prev_created = "seq" if tail[j][0] == "INDEX" else "map"
        fixed.append(tail[j])
    return segs + fixed, loc, fixed


def normalize_tail(tail, first_kind):
    """Tail segments as the model sees them: a KEY with integer text applied to a list is an index."""
    out = []
    kind = first_kind
    for j, s in enumerate(tail):
        if kind == "seq" and s[0] == "KEY":
            s = ("INDEX", int(s[1]))
        out.append(s)
        nxt = tail[j + 1] if j + 1 < len(tail) else None
        kind = None if nxt is None else ("seq" if nxt[0] == "INDEX" else "map")
    return out


def step_create(ctx, data, doc_text, rng, value, prefix="create", history=None, driver="set"):
    g = gen_creation(rng, data)
    if g is None:
        ctx.count("abstain_no_creatable_prefix")
        return False
    segs, loc, tail = g
    node0 = data
    img0 = E.image(data)
    try:
        par = E.get(img0, loc)
    except (KeyError, IndexError):
        return False
    # a KEY-typed segment creates a map, an INDEX-typed one a list; a tail KEY with integer text that
    # follows an INDEX-created list is an index into it
    null_prefix = par["t"] == "s" and par["v"][0] == "null"
    if null_prefix:
        if tail[0][0] == "KEY" and tail[0][1].lstrip("-").isdigit():
            return False          # integer-looking key below a null: Hash or Array is not determined
        first_kind = "seq" if tail[0][0] == "INDEX" else "map"
        ctx.count("create_below_null_prefix")
    else:
        first_kind = par["t"]
    ntail = normalize_tail(tail, first_kind)
    if first_kind == "seq" and ntail[0][0] != "INDEX":
        return False
    if first_kind == "map" and ntail[0][0] != "KEY":
        return False
    expected = E.image(data)
    epar = E.get(expected, loc)
    if null_prefix:
        fresh = {"t": first_kind, "a": None, "items": []}
        expected = E.put(expected, loc, fresh)
        epar = fresh
    if first_kind == "map":
        epar["items"].append([["str", ntail[0][1]], build_tail(ntail[1:], value)])
    else:
        idx = ntail[0][1]
        epar["items"].extend([dict(ANY) for _ in range(idx - len(epar["items"]))])
        epar["items"].append(build_tail(ntail[1:], value))
    try:
        ptext = gp.render(segs, ".")
    except ValueError:
        return False
    if ptext.startswith("/"):
        return False
    case = {"doc": doc_text, "path": ptext, "segs": segs, "value": repr(value), "driver": driver,
            "history": list(history or []), "state_before": yp.dump(data) if history else None}
    ctx.evaluations += 1
    ctx.count("create_steps")
    try:
        if driver == "set":
            Processor(LOG, data).set_value(ptext, value)
        else:
            for _ in Processor(LOG, data).get_nodes(ptext, mustexist=False, default_value=value):
                pass
    except YAMLPathException as e:
        ctx.violation(prefix + "/refused/%s" % type(e).__name__, {
            "case": case, "summary": "creation of a straight missing tail refused: %s" % str(e)[:150]})
        return True
    except Exception as e:
        ctx.violation(prefix + "/crash/%s@%s" % (type(e).__name__, where(e)), {
            "case": case, "summary": "%s: %s" % (type(e).__name__, str(e)[:150])})
        return True
    ctx.mark_nontrivial([doc_text, ptext, repr(value), driver, len(history or [])])
    actual = E.image(data)
    if not match(expected, actual):
        # where?
        lens = "over-padded" if _overpadded(expected, actual) else "image-differs"
        ctx.violation(prefix + "/" + lens, {"case": case, "summary": "after: %r" % yp.dump(data)[:300]})
        return True
    # the path now resolves to the supplied value, exactly once
    try:
        res = list(Processor(LOG, data).get_nodes(ptext, mustexist=True))
    except Exception as e:
        ctx.violation(prefix + "/created-path-does-not-resolve", {"case": case, "summary": repr(e)[:200]})
        return True
    if len(res) != 1 or list(yp.scalar_plain(res[0].node)) != list(yp.scalar_plain(value)):
        ctx.violation(prefix + "/created-path-resolves-differently", {
            "case": case, "summary": "resolves to %r" % [repr(r.node)[:40] for r in res[:4]]})
    reload_check(ctx, data, case, prefix)
    return True


def _overpadded(exp, act):
    if exp.get("t") == "any" or exp["t"] != act.get("t"):
        return False
    if exp["t"] == "seq":
        if len(act["items"]) > len(exp["items"]):
            return True
        return any(_overpadded(a, b) for a, b in zip(exp["items"], act["items"]))
    if exp["t"] == "map":
        return any(_overpadded(a[1], b[1]) for a, b in zip(exp["items"], act["items"]))
    return False


def roundtrips(data):
    """Does the *unedited* document dump and strictly reload to itself?  (ruamel cannot re-read some
    of its own flow-style output, e.g. a !!set nested in a flow sequence: such documents are skipped.)"""
    try:
        d2 = yp.load(yp.dump(data))
    except Exception:
        return False
    return E.strip_anchors(E.image(data)) == E.strip_anchors(E.image(d2)) and E.effective(data) == E.effective(d2)

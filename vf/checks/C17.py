"""C17 — a failing or interrupted tool run never loses the user's file  (fault enumeration).

(A) failure detected before writing: every failure cause x documents x option
    sets of yaml-set / yaml-merge; after a non-zero exit the target's bytes are
    unchanged, the directory listing is unchanged (no output, no .bak), and the
    file-system audit trace holds no write intent at all.
(B) successful saves with --backup (yaml-set -b, yaml-merge -w -b,
    eyaml-rotate-keys -b), with/without a stale .bak, YAML and JSON targets:
    an un-faulted run records the I/O event sequence e1..en; then FOR EVERY k a
    fresh sandbox is faulted at event k, once by raising OSError from the audit
    hook (in-process) and once by killing the process (os._exit(137), child
    process); the dump itself is additionally cut at byte offsets {0, 1, mid,
    last}.  Invariant: target or backup still holds the complete original
    bytes; un-faulted: .bak byte-identical to the pre-image and the copy
    completes before the target is first opened for writing.
    Without --backup: a fault before the first write intent on the target
    leaves it unchanged.
"""
import hashlib
import json
import os
import shutil
import subprocess
import sys

from vf.core import yp
from vf.core.harness import VERIF_ROOT
from vf.gen import docs as gd
from vf.mon import cli
from vf.checks import C05, C19

PROPERTY = "C17"
LEVEL = "fault_enumeration"
RULE = ("(A) failure causes {unmatched required path, failed --check, impossible change (--format=int with text; a key into a "
        "scalar), --saveto with several matches, delete of the document root, invalid / unreadable input; merge type clash, "
        "anchor conflict under stop, invalid right-hand input, existing --output} x generated documents x {with, without "
        "--backup / --overwrite}; (B) scenarios {yaml-set -b on a YAML target, on a JSON target, yaml-merge -w -b, "
        "eyaml-rotate-keys -b} x {stale .bak present, absent} x generated documents, each faulted at EVERY recorded I/O "
        "event k (OSError and kill) and at dump byte offsets {0, 1, mid, last}; plus the same without --backup. "
        "A case = (scenario, document, fault point); non-trivial = the fault fired (or, for A, the tool exited non-zero); "
        "distinct by (scenario, document, fault)")
ASSUMPTIONS = ["single faults at Python-visible I/O events (open / remove / copyfile / copymode / copystat) and simulated kills; power loss and fsync ordering are not modelled",
               "shutil copies through sendfile: the copy is faulted at its audit events, the dump at byte granularity through a write proxy",
               "EXHAUSTIVE over k for every scenario instance explored (the event count per run is recorded)"]
REACH = [("yamlpath/commands/yaml_set.py", "write_output_document,save_to_file,save_to_yaml_file,save_to_json_file", "yaml_set write-out"),
         ("yamlpath/commands/yaml_merge.py", "write_output_document,validateargs", "yaml_merge write-out"),
         ("yamlpath/commands/eyaml_rotate_keys.py", "main", "eyaml_rotate_keys.main")]
SIZES = {"quick": dict(a=1600, b=128), "thorough": dict(a=12000, b=500)}
REQUIRED_COUNTERS = ["a_existing_output/tilde", "a_cases", "b_scenarios", "faults_oserror", "faults_kill", "faults_write_offset", "baseline_backup_checked", "faults_serializer_assertion", "b_symlinked_targets", "b_stale_backup_with_equal_stat"]
EXHAUSTIVE_NOTE = "every I/O event index k of each explored scenario instance (OSError and kill), plus 4 byte offsets of the dump"


def sha(path):
    with open(path, "rb") as f:
        return hashlib.sha256(f.read()).hexdigest()


def listing(box):
    out = {}
    for root, _d, files in os.walk(box):
        for fn in files:
            p = os.path.join(root, fn)
            out[os.path.relpath(p, box)] = sha(p)
    return out


def fresh(box, files, symlinked=None, same_stat=None):
    """symlinked: name of the one file that is reached through a relative symbolic link (releases/current layouts).
    same_stat: (a, b) - give file b the modification time of file a."""
    shutil.rmtree(box, ignore_errors=True)
    os.makedirs(box)
    try:
        _fresh(box, files, symlinked)
    finally:
        if same_stat:
            st = os.stat(os.path.join(box, same_stat[0]))
            os.utime(os.path.join(box, same_stat[1]), ns=(st.st_atime_ns, st.st_mtime_ns))


def _fresh(box, files, symlinked=None):
    for name, body in files.items():
        if name == symlinked:
            os.makedirs(os.path.join(box, "real"), exist_ok=True)
            with open(os.path.join(box, "real", name), "w") as f:
                f.write(body)
            os.symlink(os.path.join("real", name), os.path.join(box, name))
            continue
        with open(os.path.join(box, name), "w") as f:
            f.write(body)


def doc_with_scalar(rng):
    """Block YAML map document with at least one top-level scalar key 'k1'."""
    t = C05.gen_tree(rng, 0, "map")
    items = [(k, v) for k, v in t[1] if k != "k1"]
    items.insert(rng.randrange(len(items) + 1), ("k1", ("s", rng.choice(["old", "1", "x y"]))))
    items.append(("lst", ("seq", [("s", "a"), ("s", "b")])))
    return ("map", items)


# ---- part A ----------------------------------------------------------------------------------------------
def part_a(ctx, rng, box):
    t = doc_with_scalar(rng)
    text = gd.render_block(t)
    backup = rng.random() < 0.5
    cause = rng.choice(["unmatched", "check", "format-int", "key-into-scalar", "saveto-many", "delete-root",
                        "invalid-input", "missing-input", "merge-clash", "anchor-stop", "merge-invalid-rhs", "existing-output",
                        "merge-unjsonable"])
    files = {"t.yaml": text}
    tool, argv = "yaml_set", None
    b = ["-b"] if backup else []
    if cause == "unmatched":
        argv = ["-g", "/no/such/path", "-a", "v", "-m", "-S"] + b + ["t.yaml"]
    elif cause == "check":
        argv = ["-g", "/k1", "-a", "v", "-c", "not-the-old-value", "-S"] + b + ["t.yaml"]
    elif cause == "format-int":
        argv = ["-g", "/k1", "-a", "not a number", "-F", "int", "-S"] + b + ["t.yaml"]
    elif cause == "key-into-scalar":
        argv = ["-g", "/k1/sub", "-a", "v", "-S"] + b + ["t.yaml"]
    elif cause == "saveto-many":
        argv = ["-g", "/lst/*", "-a", "v", "-s", "/saved", "-S"] + b + ["t.yaml"]
    elif cause == "delete-root":
        argv = ["-g", "/", "-D", "-S"] + b + ["t.yaml"]
    elif cause == "invalid-input":
        files["t.yaml"] = "a: [1, 2\nb: }\n"
        argv = ["-g", "/a", "-a", "v", "-S"] + b + ["t.yaml"]
    elif cause == "missing-input":
        argv = ["-g", "/a", "-a", "v", "-S"] + b + ["nope.yaml"]
    else:
        tool = "yaml_merge"
        w = ["-w", "t.yaml"] + b if backup else []
        if cause == "merge-clash":
            files["r.yaml"] = "k1:\n  - 1\n  - 2\nlst:\n  x: 1\n"
            argv = ["-S"] + w + ["t.yaml", "r.yaml"]
        elif cause == "anchor-stop":
            files["t.yaml"] = "a: &A1 one\nb: *A1\n"
            files["r.yaml"] = "c: &A1 two\nd: *A1\n"
            argv = ["-S", "-a", "stop"] + w + ["t.yaml", "r.yaml"]
        elif cause == "merge-invalid-rhs":
            files["r.yaml"] = "a: [1, 2\nb: }\n"
            argv = ["-S"] + w + ["t.yaml", "r.yaml"]
        elif cause == "merge-unjsonable":
            # JSON output asked for (by option or by the output file's name) of a merged document that JSON cannot hold (a
            # date or a sequence as a Hash key): known before anything is written
            files["r.yaml"] = rng.choice(["rel:\n  2001-01-01: beta\n", "? [a, b]\n: pair\n", "rel:\n  ? {x: 1}\n  : v\n"])
            how = rng.choice(["overwrite-D", "overwrite-D", "output-name", "output-D"])
            if how == "overwrite-D":
                argv = ["-S", "-D", "json", "-w", "t.yaml"] + b + ["t.yaml", "r.yaml"]
            elif how == "output-name":
                argv = ["-S", "-o", "out.json", "t.yaml", "r.yaml"]
            else:
                argv = ["-S", "-o", "new.yaml", "--document-format=json", "t.yaml", "r.yaml"]
        else:
            files["r.yaml"] = "zz: 1\n"
            files["out.yaml"] = "precious: existing output\n"
            # the existing output file under several spellings of its name (HOME is the sandbox for the run)
            spelling = rng.choice(["out.yaml", "./out.yaml", os.path.join(box, "out.yaml"), "~/out.yaml", "../%s/out.yaml" % os.path.basename(box)])
            argv = ["-S", rng.choice(["-o", "--output"]), spelling, "t.yaml", "r.yaml"]
            if rng.random() < 0.3:
                argv = ["-S", "--output=" + spelling, "t.yaml", "r.yaml"]
            ctx.counters["a_existing_output/" + ("tilde" if spelling[0] == "~" else "other")] = ctx.counters.get(
                "a_existing_output/" + ("tilde" if spelling[0] == "~" else "other"), 0) + 1
    fresh(box, files)
    before = listing(box)
    cwd = os.getcwd()
    os.chdir(box)
    home = os.environ.get("HOME")
    os.environ["HOME"] = box
    try:
        r = cli.run(tool, argv, sandbox=box)
    finally:
        os.chdir(cwd)
        if home is None:
            os.environ.pop("HOME", None)
        else:
            os.environ["HOME"] = home
    ctx.evaluations += 1
    ctx.counters["a_cases"] = ctx.counters.get("a_cases", 0) + 1
    ctx.counters["a/" + cause] = ctx.counters.get("a/" + cause, 0) + 1
    case = {"part": "A", "cause": cause, "tool": tool, "argv": argv, "files": files, "backup": backup}
    tilde = cause == "existing-output" and any(a.startswith(("~", "--output=~")) for a in argv)
    if r["exc"] and tilde and r["exc"].startswith("FileNotFoundError"):
        # the literal directory "~" does not exist: the interpreter ends such a run with a traceback and status 1 - a
        # non-zero end all the same (how gracefully a tool fails is not this property's subject)
        ctx.count("a_existing_output/tilde_ended_in_FileNotFoundError")
        r = dict(r, exc=None, code=1)
    if r["exc"] and cause == "merge-unjsonable" and r["exc"].startswith("TypeError"):
        # the serializer's refusal ends the run with a traceback and status 1: a non-zero end all the same
        ctx.count("a_merge_unjsonable/ended_in_TypeError")
        r = dict(r, exc=None, code=1)
    if r["exc"]:
        ctx.violation("A/crash/%s" % cause, {"case": case, "summary": r["exc"][:200]})
        return
    if r["code"] == 0:
        ctx.violation("A/exit-0-on-failure/%s" % cause, {"case": case, "summary": "the run was expected to fail; stdout %r" % r["out"][:120]})
        return
    ctx.mark_nontrivial(["A", cause, files, argv])
    after = listing(box)
    if cause == "merge-unjsonable" and "-b" in argv and "t.yaml.bak" in after and after["t.yaml.bak"] == before["t.yaml"]:
        # the refusal comes from the serializer, which the tool reaches after it has taken the backup it was asked for: a
        # faithful copy of the pre-image beside an untouched target is not judged here
        ctx.count("a_merge_unjsonable/faithful_backup_left")
        after = {k: v for k, v in after.items() if k != "t.yaml.bak"}
    if after != before:
        changed = sorted(set(after.items()) ^ set(before.items()))
        ctx.violation("A/files-changed-after-failure/%s" % cause, {"case": case, "summary": "exit %d but %r" % (r["code"], [c[0] for c in changed][:5])})
        return
    writes = [e for e in r["trace"] if (e["ev"] == "open" and e.get("write")) or e["ev"] in cli.WRITE_EVENTS]
    if cause == "merge-unjsonable" and "-b" in argv:
        return      # (the backup copy is a write the tool was asked for)
    if tilde:
        return      # read literally, ~/out.yaml lies in a directory that does not exist: the failure IS the attempt to open it
    if writes:
        ctx.violation("A/write-intent-before-failure/%s" % cause, {"case": case, "summary": repr(writes)[:250]})


# ---- part B -------------------------------------------------------------------------------------------------
def scenario(rng):
    kind = rng.choice(["set-yaml", "set-yaml", "set-json", "merge", "rotate", "set-nobackup", "merge-nobackup"])
    stale = rng.random() < 0.4
    env = {}
    if kind.startswith("set"):
        t = doc_with_scalar(rng)
        if kind == "set-json":
            files = {"t.json": gd.render(t) + "\n"}
            target = "t.json"
        else:
            files = {"t.yaml": gd.render_block(t)}
            target = "t.yaml"
        argv = ["-g", "/k1", "-a", "new value", "-S"] + ([] if kind == "set-nobackup" else ["-b"]) + [target]
        tool = "yaml_set"
    elif kind.startswith("merge"):
        t = doc_with_scalar(rng)
        files = {"t.yaml": gd.render_block(t), "r.yaml": "k1: merged\nextra:\n  - 1\n"}
        target = "t.yaml"
        argv = ["-S", "-w", "t.yaml"] + ([] if kind == "merge-nobackup" else ["-b"]) + ["t.yaml", "r.yaml"]
        tool = "yaml_merge"
    else:
        g = C19.Gen(rng)
        for _ in range(30):
            text = g.build()
            if g.n_secret:
                break
            g = C19.Gen(rng)
        files = {"t.yaml": text, "old.pub": "PUB:old\n", "old.priv": "PRIV:old\n", "new.pub": "PUB:new\n", "new.priv": "PRIV:new\n"}
        target = "t.yaml"
        argv = ["-x", C19.FAKE, "-i", "old.priv", "-c", "old.pub", "-r", "new.priv", "-u", "new.pub", "-b", "t.yaml"]
        tool = "eyaml_rotate_keys"
    backup = "-b" in argv
    stale_twin = False
    if stale and backup:
        files[target + ".bak"] = "a stale backup from an earlier run\n"
        if rng.random() < 0.4:
            # a stale backup that LOOKS like the target to a stat() comparison: same size, same mtime, other content
            body = files[target]
            files[target + ".bak"] = "".join("#" if (i % 7 == 3 and c not in "\n") else c for i, c in enumerate(body))
            stale_twin = files[target + ".bak"] != body
    return {"kind": kind, "tool": tool, "argv": argv, "files": files, "target": target, "backup": backup, "env": env,
            "symlinked": target if backup and rng.random() < 0.25 else None, "stale_twin": stale_twin}


def run_in(box, sc, fault=None, child=False):
    fresh(box, sc["files"], sc.get("symlinked"), (sc["target"], sc["target"] + ".bak") if sc.get("stale_twin") else None)
    if child:
        spec = {"tool": sc["tool"], "argv": sc["argv"], "sandbox": box, "fault": fault, "env": sc["env"]}
        env = dict(os.environ)
        env["PYTHONPATH"] = VERIF_ROOT + os.pathsep + env.get("PYTHONPATH", "")
        p = subprocess.run([sys.executable, "-m", "vf.mon.cli_child", json.dumps(spec)], cwd=box, env=env,
                           capture_output=True, text=True, timeout=120)
        try:
            r = json.loads(p.stdout.strip().splitlines()[-1]) if p.stdout.strip() else None
        except ValueError:
            r = None
        return {"returncode": p.returncode, "result": r}
    cwd = os.getcwd()
    os.chdir(box)
    try:
        return {"returncode": None, "result": cli.run(sc["tool"], sc["argv"], sandbox=box, fault=fault)}
    finally:
        os.chdir(cwd)


def check_after_fault(ctx, sc, box, original, fault, fired, trace_before_fault):
    case = {"part": "B", "scenario": sc["kind"], "argv": sc["argv"], "files": sc["files"], "fault": fault}
    tpath = os.path.join(box, sc["target"])
    bpath = tpath + ".bak"
    t_ok = os.path.exists(tpath) and open(tpath, "rb").read() == original
    b_ok = os.path.exists(bpath) and open(bpath, "rb").read() == original
    if sc["backup"]:
        if not (t_ok or b_ok):
            ctx.violation("B/original-lost/%s/%s" % (sc["kind"], fault_name(fault)), {
                "case": case, "summary": "after the fault neither %s nor its .bak holds the original bytes (target %s, backup %s)" % (
                    sc["target"], "exists" if os.path.exists(tpath) else "missing", "exists" if os.path.exists(bpath) else "missing")})
    elif "write_after" not in fault:
        wrote = any(e.get("path") == sc["target"] and ((e["ev"] == "open" and e.get("write")) or e["ev"] in cli.WRITE_EVENTS)
                    for e in trace_before_fault)
        if not wrote and not t_ok:
            ctx.violation("B/target-changed-before-any-write-intent/%s" % sc["kind"], {"case": case, "summary": "no write intent recorded before the fault"})


def fault_name(f):
    if "write_after" in f:
        return "serializer-assertion" if f.get("exc") == "assertion" else "write-cut"
    return f.get("kind", "oserror")


def part_b(ctx, rng, box):
    sc = scenario(rng)
    original = sc["files"][sc["target"]].encode()
    base = run_in(box, sc)["result"]
    case = {"part": "B", "scenario": sc["kind"], "argv": sc["argv"], "files": sc["files"], "symlinked": sc.get("symlinked")}
    if sc.get("symlinked"):
        ctx.counters["b_symlinked_targets"] = ctx.counters.get("b_symlinked_targets", 0) + 1
    if sc.get("stale_twin"):
        ctx.counters["b_stale_backup_with_equal_stat"] = ctx.counters.get("b_stale_backup_with_equal_stat", 0) + 1
    ctx.counters["b_scenarios"] = ctx.counters.get("b_scenarios", 0) + 1
    ctx.counters["b/" + sc["kind"]] = ctx.counters.get("b/" + sc["kind"], 0) + 1
    if base["exc"] or base["code"] != 0:
        ctx.violation("B/baseline-failed/%s" % sc["kind"], {"case": case, "summary": "exit %s %s %s" % (base["code"], base["exc"], base["err"][:150])})
        return
    trace = [e for e in base["trace"] if e["ev"] != "FAULT"]
    n = len(trace)
    ctx.counters["events_total"] = ctx.counters.get("events_total", 0) + n
    tpath = os.path.join(box, sc["target"])
    # ---- un-faulted contract -----------------------------------------------------------------------------
    if sc["backup"]:
        ctx.counters["baseline_backup_checked"] = ctx.counters.get("baseline_backup_checked", 0) + 1
        bpath = tpath + ".bak"
        if not os.path.exists(bpath) or open(bpath, "rb").read() != original:
            ctx.violation("B/backup-not-identical/%s" % sc["kind"], {"case": case, "summary": "the .bak is missing or differs from the pre-image"})
            return
        if os.path.islink(bpath) or os.path.samefile(bpath, tpath):
            ctx.violation("B/backup-is-the-target-itself/%s" % sc["kind"], {"case": case, "summary": "the .bak is a link to the file being rewritten"})
            return
        k_copy = [e["k"] for e in trace if e["ev"] in ("shutil.copyfile", "shutil.copystat", "shutil.copymode") and e["path"] == sc["target"]]
        k_write = [e["k"] for e in trace if e["ev"] == "open" and e.get("write") and e["path"] == sc["target"]]
        if k_write and (not k_copy or min(k_write) < max(k_copy)):
            ctx.violation("B/target-opened-before-backup-complete/%s" % sc["kind"], {"case": case, "summary": repr(trace)[:300]})
            return
    if open(tpath, "rb").read() == original:
        ctx.count("baseline_target_unchanged")
    written_len = len(open(tpath, "rb").read())
    # ---- every event k: OSError (in-process) and kill (child) --------------------------------------------------
    for k in range(1, n + 1):
        f = {"at": k, "kind": "oserror"}
        r = run_in(box, sc, fault=f)["result"]
        fired = any(e["ev"] == "FAULT" for e in r["trace"])
        ctx.evaluations += 1
        ctx.counters["faults_oserror"] = ctx.counters.get("faults_oserror", 0) + 1
        if fired:
            ctx.mark_nontrivial([sc["kind"], sc["files"], "oserror", k])
            check_after_fault(ctx, sc, box, original, f, fired, [e for e in r["trace"] if e.get("k", 10 ** 9) < k])
        else:
            ctx.count("fault_not_reached")
    for k in range(1, n + 1):
        f = {"at": k, "kind": "kill"}
        rr = run_in(box, sc, fault=f, child=True)
        ctx.evaluations += 1
        ctx.counters["faults_kill"] = ctx.counters.get("faults_kill", 0) + 1
        if rr["returncode"] == 137:
            ctx.mark_nontrivial([sc["kind"], sc["files"], "kill", k])
            check_after_fault(ctx, sc, box, original, f, True, [e for e in trace if e["k"] < k])
        else:
            ctx.count("kill_not_reached")
    # ---- the dump cut at byte offsets -----------------------------------------------------------------------------
    for off in sorted({0, 1, max(0, written_len // 2), max(0, written_len - 1)}):
        f = {"write_after": off, "path": sc["target"]}
        r = run_in(box, sc, fault=f)["result"]
        ctx.evaluations += 1
        ctx.counters["faults_write_offset"] = ctx.counters.get("faults_write_offset", 0) + 1
        if any(e["ev"] == "FAULT" for e in r["trace"]):
            ctx.mark_nontrivial([sc["kind"], sc["files"], "write", off])
            check_after_fault(ctx, sc, box, original, f, True, [])
        else:
            ctx.count("write_fault_not_reached")
    # ---- the serializer itself giving up part-way (AssertionError), its output so far still buffered ------------------
    for off in sorted({1, max(1, written_len // 2)}):
        f = {"write_after": off, "path": sc["target"], "exc": "assertion"}
        r = run_in(box, sc, fault=f)["result"]
        ctx.evaluations += 1
        ctx.counters["faults_serializer_assertion"] = ctx.counters.get("faults_serializer_assertion", 0) + 1
        if any(e["ev"] == "FAULT" for e in r["trace"]):
            ctx.mark_nontrivial([sc["kind"], sc["files"], "assertion", off])
            check_after_fault(ctx, sc, box, original, f, True, [])
        else:
            ctx.count("write_fault_not_reached")


def run_shard(ctx):
    rng = ctx.rng
    sz = SIZES[ctx.tier]
    box = os.path.join(os.environ.get("VF_WORKDIR", "/dev/shm"), "c17-%d" % ctx.shard)
    na = max(12, sz["a"] // ctx.nshards)
    nb = max(2, sz["b"] // ctx.nshards)
    for _ in range(na):
        part_a(ctx, rng, box)
    os.environ["VF_EYAML_LOG"] = os.path.join(os.environ.get("VF_WORKDIR", "/dev/shm"), "c17-eyaml-%d.log" % ctx.shard)
    for _ in range(nb):
        part_b(ctx, rng, box)
        try:
            os.unlink(os.environ["VF_EYAML_LOG"])
        except OSError:
            pass
    shutil.rmtree(box, ignore_errors=True)
    ctx.sample({"scenario": "yaml-set -b", "events_recorded_by_the_audit_hook": "open(t,'r') [remove(t.bak)] copyfile(t->t.bak) "
                "open(t,'r') open(t.bak,'w') copystat open(t,'rb') open(t,'w')", "faults": "each event x {OSError, kill} + dump cut at 4 offsets"})


def finish(merged):
    merged["exhaustive"] = True


def replay(w):
    return {"violated": None, "case": w["case"], "note": "re-create case.files in a directory and run the tool with case.argv under the recorded fault"}


MANIFEST = {
    "level_text": ("Fault enumeration: for every explored scenario instance (yaml-set -b on YAML and JSON targets, yaml-merge -w "
                   "-b, eyaml-rotate-keys -b, with/without a stale .bak, and the no-backup variants) the save's complete I/O "
                   "event sequence is recorded by a sys.addaudithook monitor and a single fault is injected at EVERY event "
                   "(OSError raised from the hook; simulated kill in a child process) plus the dump cut at 4 byte offsets; "
                   "after each, target or backup must hold the complete original bytes.  Part A: every pre-write failure "
                   "cause x documents x option sets must leave bytes, listing and the audit trace free of write intents."),
    "level_note": ("Single faults at Python-visible I/O steps and simulated kills; no power-loss / fsync model; shutil's copy is "
                   "one event (sendfile), so partial copies are represented by faults at its audit events only."),
    "technique": "fault injection at every audited I/O event (sys.addaudithook failpoints, write proxy, kill) + byte/listing invariants",
}

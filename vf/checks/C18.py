"""C18 — multi-document merges combine documents as the selected mode defines.

Twin differential: the expected fold of pairwise merges is computed with the
library's own merge_with on *independently loaded* copies of every operand at
every step, so sharing of right-hand objects between successive merges cannot
leak into the expectation.  The number and order of output documents must be
a function of the mode and the stream lengths alone.  Driven through the
functions merge_condense_all / merge_across / merge_matrix and, for a sample,
through the real yaml-merge entry point (-M), stdout parsed as a stream.
"""
import os
from types import SimpleNamespace

from vf.core import yp
from vf.core.yp import LOG, YAMLPathException
from vf.gen import docs as gd
from vf.checks import C05
from vf.mon import cli
from yamlpath.merger import Merger, MergerConfig
from yamlpath.merger.exceptions import MergeException
from yamlpath.commands import yaml_merge

PROPERTY = "C18"
LEVEL = "exploration"
RULE = ("pairs of document streams of lengths 1-4 (maps / lists; occasionally an empty document) x modes {condense_all, "
        "merge_across, matrix_merge} x a sample of C05 policies; a quarter of the cases use streams of documents that define "
        "and alias scalar anchors from a shared name pool, under the four anchor policies; through the three library functions (all cases) and "
        "through the yaml-merge console entry point with -M (a sample). Non-trivial = at least one stream has >=2 "
        "documents; distinct by (left stream, right stream, mode, policies)")
ASSUMPTIONS = ["each pairwise step is the library's own merge_with on fresh copies (C05 judges the step itself)",
               "streams whose fold hits a MergeException are only checked for agreement on failing"]
REACH = [("yamlpath/commands/yaml_merge.py", "merge_condense_all,merge_across,merge_matrix,merge_docs,get_doc_mergers", "yaml_merge multi-document functions"),
         ("yamlpath/merger/mergerconfig.py", "get_multidoc_mode", "MergerConfig.get_multidoc_mode")]
SIZES = {"quick": dict(lib=12000, cli=150), "thorough": dict(lib=400000, cli=3000)}
REQUIRED_COUNTERS = ["association_cases", "cli_stdin_stream_cases", "cli_stdin_stream_ends_empty", "lib_cases", "cli_cases", "matrix_cases", "anchored_stream_cases"]
MODES = ["condense_all", "merge_across", "matrix_merge"]
SAMPLE = [("deep", "all", "all", "unique"), ("deep", "unique", "deep", "unique"), ("deep", "all", "deep", "unique"),
          ("right", "right", "right", "right")]


_MERGEAT = [None]       # the --mergeat path of the case being run (None: the root)


def cfg_ns(combo, mode):
    """combo = (hashes, arrays, aoh, sets[, anchors])"""
    ns = SimpleNamespace(hashes=combo[0], arrays=combo[1], aoh=combo[2], sets=combo[3], multi_doc_mode=mode,
                         anchors=combo[4] if len(combo) > 4 else "stop")
    if _MERGEAT[0]:
        ns.mergeat = _MERGEAT[0]
    return ns


def pair(acc_text_or_data, rtext, combo, mode):
    """acc (live data) merged with a freshly loaded copy of rtext."""
    m = Merger(LOG, acc_text_or_data, MergerConfig(LOG, cfg_ns(combo, mode)))
    m.merge_with(yp.load(rtext) if rtext is not None else None)
    return m.data


def expected(ltexts, rtexts, combo, mode):
    def fresh(t):
        return yp.load(t) if t is not None else None
    if mode == "condense_all":
        acc = fresh(ltexts[0])
        for t in ltexts[1:] + rtexts:
            acc = pair(acc, t, combo, mode)
        return [acc]
    if mode == "merge_across":
        out = []
        for i in range(max(len(ltexts), len(rtexts))):
            if i < len(ltexts) and i < len(rtexts):
                out.append(pair(fresh(ltexts[i]), rtexts[i], combo, mode))
            elif i < len(ltexts):
                out.append(fresh(ltexts[i]))
            else:
                out.append(fresh(rtexts[i]))
        return out
    out = []
    for lt in ltexts:
        acc = fresh(lt)
        for rt in rtexts:
            acc = pair(acc, rt, combo, mode)
        out.append(acc)
    return out


def real(ltexts, rtexts, combo, mode):
    conf = MergerConfig(LOG, cfg_ns(combo, mode))
    lm = [Merger(LOG, yp.load(t) if t is not None else None, conf) for t in ltexts]
    rm = [Merger(LOG, yp.load(t) if t is not None else None, conf) for t in rtexts]
    import io
    import sys
    olderr = sys.stderr
    sys.stderr = io.StringIO()
    try:
        if mode == "condense_all":
            rc = yaml_merge.merge_condense_all(LOG, lm, rm)
        elif mode == "merge_across":
            rc = yaml_merge.merge_across(LOG, lm, rm)
        else:
            rc = yaml_merge.merge_matrix(LOG, lm, rm)
    finally:
        sys.stderr = olderr
    return rc, [m.data for m in lm]


def norm(n):
    p = yp.plain(n)

    def f(p):
        if p[0] == "map":
            return ("map", tuple(sorted(((repr(k), f(v)) for k, v in p[1]), key=lambda kv: kv[0])))
        if p[0] == "seq":
            return ("seq", tuple(f(x) for x in p[1]))
        return p
    return f(p)


def stream_text(texts):
    return "".join("---\n%s\n" % (t if t is not None else "") for t in texts)


def run_lib(ctx, ltexts, rtexts, combo, mode):
    case = {"lhs_stream": ltexts, "rhs_stream": rtexts, "mode": mode, "policies": combo, "via": "library", "mergeat": _MERGEAT[0]}
    ctx.evaluations += 1
    ctx.counters["lib_cases"] = ctx.counters.get("lib_cases", 0) + 1
    if mode == "matrix_merge":
        ctx.counters["matrix_cases"] = ctx.counters.get("matrix_cases", 0) + 1
    if len(ltexts) > 1 or len(rtexts) > 1:
        ctx.mark_nontrivial([ltexts, rtexts, mode, combo])
    try:
        exp = expected(ltexts, rtexts, combo, mode)
        exp_err = None
    except (MergeException, YAMLPathException) as e:
        exp, exp_err = None, e
    except Exception:
        ctx.count("expectation_crashed_left_to_C05")
        return
    from vf.core.harness import case_deadline, CaseTimeout
    try:
        with case_deadline(30):
            rc, got = real(ltexts, rtexts, combo, mode)
    except CaseTimeout as e:
        ctx.violation("does-not-terminate/%s" % mode, {"case": case, "summary": "no result after 30 s of CPU time (normal cost: milliseconds); at %s" % str(e)[:400]})
        return
    except Exception as e:
        ctx.violation("crash/%s/%s" % (type(e).__name__, mode), {"case": case, "summary": "%s: %s" % (type(e).__name__, str(e)[:150])})
        return
    if exp_err is not None:
        if rc == 0:
            ctx.violation("fold-fails-but-mode-succeeds/%s" % mode, {"case": case, "summary": "pairwise fold raises %s" % str(exp_err)[:100]})
        return
    if rc != 0:
        ctx.violation("mode-fails-but-fold-succeeds/%s" % mode, {"case": case, "summary": "return state %d" % rc})
        return
    if len(got) != len(exp):
        ctx.violation("document-count/%s" % mode, {"case": case, "summary": "%d documents, expected %d" % (len(got), len(exp))})
        return
    for i, (g, e) in enumerate(zip(got, exp)):
        if norm(g) != norm(e):
            ctx.violation("document-differs/%s" % mode, {"case": case, "summary": "document %d: got %r ; fold of independent copies gives %r" % (
                i, yp.dump(g)[:200] if g is not None else None, yp.dump(e)[:200] if e is not None else None)})
            return


def association_case(ctx, rng, workdir):
    """Inputs on which the ORDER OF ASSOCIATION of the pairwise merges shows: a merge point below the root (a right-hand
    document merged into another right-hand document would land under that path again) or an Array root receiving
    Hashes / scalars.  Library and tool, every mode."""
    if rng.random() < 0.6:
        _MERGEAT[0] = rng.choice(["/x", "x", "/x/y"])
        ltexts = [rng.choice(["{x: {a: 1, y: {q: 1}}, z: 2}", "{x: {y: {}}}", "{x: {y: {k: [1]}}, w: [1]}"]) for _ in range(rng.choice([1, 1, 2]))]
        rtexts = [rng.choice(["{b: 2}", "{c: [1]}", "{x: {b: 3}}", "{a: 9, y: {r: 2}}", "{k: [2]}"]) for _ in range(rng.choice([2, 2, 3]))]
    else:
        _MERGEAT[0] = None
        ltexts = [rng.choice(["[1]", "[{a: 0}]", "[x, y]"]) for _ in range(rng.choice([1, 1, 2]))]
        rtexts = [rng.choice(["{a: 1}", "{b: 2}", "[2]", "[3, 4]", "[{a: 1}]"]) for _ in range(rng.choice([2, 2, 3]))]
    combo = rng.choice(SAMPLE)
    ctx.counters["association_cases"] = ctx.counters.get("association_cases", 0) + 1
    try:
        for mode in MODES:
            run_lib(ctx, ltexts, rtexts, combo, mode)
        run_cli(ctx, ltexts, rtexts, combo, rng.choice(MODES + ["condense_all"]), workdir)
    finally:
        _MERGEAT[0] = None


def run_cli(ctx, ltexts, rtexts, combo, mode, workdir):
    case = {"lhs_stream": ltexts, "rhs_stream": rtexts, "mode": mode, "policies": combo, "via": "yaml-merge", "mergeat": _MERGEAT[0]}
    os.makedirs(workdir, exist_ok=True)
    lf, rf = os.path.join(workdir, "l.yaml"), os.path.join(workdir, "r.yaml")
    with open(lf, "w") as f:
        f.write(stream_text(ltexts))
    with open(rf, "w") as f:
        f.write(stream_text(rtexts))
    ctx.evaluations += 1
    ctx.counters["cli_cases"] = ctx.counters.get("cli_cases", 0) + 1
    try:
        exp = expected(ltexts, rtexts, combo, mode)
        exp_err = None
    except (MergeException, YAMLPathException) as e:
        exp, exp_err = None, e
    except Exception:
        return
    r = cli.run("yaml_merge", ["-S", "-D", "yaml", "-M", mode, "-H", combo[0], "-A", combo[1], "-O", combo[2], "-E", combo[3]]
                + (["-a", combo[4]] if len(combo) > 4 else []) + (["-m", _MERGEAT[0]] if _MERGEAT[0] else []) + [lf, rf])
    if r["exc"]:
        ctx.violation("cli-crash/%s" % mode, {"case": case, "summary": r["exc"][:200]})
        return
    if exp_err is not None:
        if r["code"] == 0:
            ctx.violation("cli-fold-fails-but-exit-0/%s" % mode, {"case": case, "summary": r["out"][:200]})
        return
    if r["code"] != 0:
        ctx.violation("cli-fails-but-fold-succeeds/%s" % mode, {"case": case, "summary": "exit %d: %s" % (r["code"], r["err"][:200])})
        return
    try:
        docs = yp.load_all(r["out"])
    except yp.LoadError:
        ctx.violation("cli-output-does-not-load/%s" % mode, {"case": case, "summary": r["out"][:300]})
        return
    exp_nonempty = exp
    if len(docs) != len(exp_nonempty):
        ctx.violation("cli-document-count/%s" % mode, {"case": case, "summary": "%d documents printed, expected %d: %r" % (
            len(docs), len(exp), r["out"][:300])})
        return
    for i, (g, e) in enumerate(zip(docs, exp_nonempty)):
        if norm(g) != norm(e):
            ctx.violation("cli-document-differs/%s" % mode, {"case": case, "summary": "document %d: printed %r expected %r" % (
                i, yp.dump(g)[:200] if g is not None else None, yp.dump(e)[:200] if e is not None else None)})
            return


def run_cli_stdin(ctx, rng, ltexts, rtexts, combo, mode, workdir):
    """The right-hand stream delivered through STDIN (explicit `-` or implicit) instead of a file: the stream is the same
    stream, so exit status and output must be the same.  Streams may END in an empty document."""
    rtexts = list(rtexts)
    tail = rng.choice([None, "", "---\n", "--- ~\n", "--- null\n", "...\n"])
    rstream = "".join("---\n%s\n" % t for t in rtexts if t is not None) + (tail or "")
    if not rstream.strip("-\n ~."):
        return
    case = {"lhs_stream": ltexts, "rhs_stream_text": rstream, "mode": mode, "policies": combo, "via": "yaml-merge, file vs stdin"}
    os.makedirs(workdir, exist_ok=True)
    lf, rf = os.path.join(workdir, "l.yaml"), os.path.join(workdir, "r.yaml")
    with open(lf, "w") as f:
        f.write(stream_text(ltexts))
    with open(rf, "w") as f:
        f.write(rstream)
    opts = ["-D", "yaml", "-M", mode, "-H", combo[0], "-A", combo[1], "-O", combo[2], "-E", combo[3]]
    a = cli.run("yaml_merge", ["-S"] + opts + [lf, rf])
    route = rng.choice(["dash", "implicit"])
    b = cli.run("yaml_merge", opts + [lf] + (["-"] if route == "dash" else []), stdin_text=rstream)
    ctx.evaluations += 1
    ctx.counters["cli_stdin_stream_cases"] = ctx.counters.get("cli_stdin_stream_cases", 0) + 1
    if tail:
        ctx.counters["cli_stdin_stream_ends_empty"] = ctx.counters.get("cli_stdin_stream_ends_empty", 0) + 1
    ctx.mark_nontrivial([ltexts, rstream, mode, combo, route])
    if a["exc"] or b["exc"]:
        ctx.violation("cli-crash/%s" % mode, {"case": case, "summary": (a["exc"] or b["exc"])[:200]})
    elif (a["code"], a["out"]) != (b["code"], b["out"]):
        ctx.violation("cli-stdin-stream-differs-from-file/%s" % mode, {"case": case, "summary": "file: exit %d %r ; %s stdin: exit %d %r" % (
            a["code"], a["out"][:150], route, b["code"], b["out"][:150])})


def gen_stream(rng, base=None):
    n = rng.choice([1, 1, 2, 2, 3, 4])
    out = []
    for _ in range(n):
        if base is not None and rng.random() < 0.6:
            t = C05.derive(rng, base)
        else:
            t = C05.gen_tree(rng, 0, rng.choice(["map", "map", "map", "seq"]))
        out.append(t)
    return out


SEEDS = [(["{a: 1}", "{b: 2}"], ["{k: [1]}", "{k: [2]}"], "matrix_merge"),
         (["{a: 1}"], ["{b: 2}", "{c: 3}"], "merge_across"), (["{a: 1}", "{a: 2}", "{b: 1}"], ["{c: 3}"], "condense_all"),
         (["{a: [1]}", "{a: [2]}"], ["{a: [3]}", "{a: [4]}", "{a: [5]}"], "merge_across")]


def run_shard(ctx):
    rng = ctx.rng
    sz = SIZES[ctx.tier]
    workdir = os.path.join(os.environ.get("VF_WORKDIR", "/dev/shm"), "c18-%d" % ctx.shard)
    if ctx.shard == 0:
        for l, r, mode in SEEDS:
            run_lib(ctx, l, r, SAMPLE[0], mode)
            run_cli(ctx, l, r, SAMPLE[0], mode, workdir)
            ctx.sample({"lhs_stream": l, "rhs_stream": r, "mode": mode})
    want = sz["lib"] // ctx.nshards
    wcli = max(1, sz["cli"] // ctx.nshards)
    ncli = 0
    n = 0
    while ctx.counters.get("lib_cases", 0) < want:
        if rng.random() < 0.02:
            association_case(ctx, rng, workdir)
            continue
        if rng.random() < 0.25:
            # streams whose documents define and alias scalar anchors from one small name pool: every step of a
            # multi-document merge must resolve conflicts against the document accumulated so far
            from vf.checks import C10
            ltexts = [gd.render(C10.gen(rng)[0]) for _ in range(rng.choice([1, 1, 2]))]
            rtexts = [gd.render(C10.gen(rng)[0]) for _ in range(rng.choice([1, 2, 2, 3]))]
            combo = rng.choice(SAMPLE) + (rng.choice(C10.POLICIES),)
            for mode in MODES:
                ctx.counters["anchored_stream_cases"] = ctx.counters.get("anchored_stream_cases", 0) + 1
                run_lib(ctx, ltexts, rtexts, combo, mode)
            if ncli < wcli and rng.random() < 0.3:
                run_cli(ctx, ltexts, rtexts, combo, rng.choice(MODES), workdir)
                ncli += 1
            continue
        base = C05.gen_tree(rng, 0, rng.choice(["map", "map", "seq"]))
        lts = gen_stream(rng, base)
        rts = gen_stream(rng, base)
        # all documents of one case share the root kind (a multi-document YAML file of like documents) ...
        if len({t[0] for t in lts + rts}) > 1:
            continue
        # ... except, sometimes, ONE left document that is not the last: its merges fail while the others succeed,
        # and the mode as a whole must then report failure
        if len(lts) >= 2 and rng.random() < 0.12:
            odd = rng.randrange(len(lts) - 1)
            lts[odd] = C05.gen_tree(rng, 0, "seq" if lts[odd][0] == "map" else "map")
            ctx.count("one_left_document_of_another_kind")
        ltexts = [gd.render(t) for t in lts]
        rtexts = [gd.render(t) for t in rts]
        if rng.random() < 0.05:
            rtexts[rng.randrange(len(rtexts))] = None       # an empty document
        if len(ltexts) >= 2 and rng.random() < 0.08:
            ltexts[rng.randrange(len(ltexts) - 1)] = None   # an empty LEFT document that is not the last one
            ctx.count("empty_left_document_cases")
        combo = rng.choice(SAMPLE)
        for mode in MODES:
            run_lib(ctx, ltexts, rtexts, combo, mode)
        if ncli < wcli and None not in rtexts and None not in ltexts:
            run_cli(ctx, ltexts, rtexts, combo, rng.choice(MODES), workdir)
            ncli += 1
            if ncli % 2 == 0:
                run_cli_stdin(ctx, rng, ltexts, rtexts, combo, rng.choice(MODES), workdir)
        n += 1
        if n <= 2:
            ctx.sample({"lhs_stream": ltexts, "rhs_stream": rtexts})


def replay(w):
    c = w["case"]

    class _Ctx:
        def __init__(self):
            self.v, self.evaluations, self.counters = [], 0, {}

        def count(self, *a):
            pass

        def mark_nontrivial(self, *a):
            pass

        def violation(self, m, w):
            self.v.append((m, w["summary"]))
    cx = _Ctx()
    _MERGEAT[0] = c.get("mergeat")
    try:
        if c.get("via") == "yaml-merge":
            run_cli(cx, c["lhs_stream"], c["rhs_stream"], tuple(c["policies"]), c["mode"], os.path.join(os.environ.get("VF_WORKDIR", "/dev/shm"), "c18-replay"))
        else:
            run_lib(cx, c["lhs_stream"], c["rhs_stream"], tuple(c["policies"]), c["mode"])
    finally:
        _MERGEAT[0] = None
    return {"violated": bool(cx.v), "found": cx.v}


MANIFEST = {
    "level_text": ("Exploration: 10^4 (quick) to 4*10^5 (thorough) multi-document merges over generated stream pairs of "
                   "lengths 1-4 x three modes x policy sample through the library functions, plus a sample through the "
                   "real yaml-merge entry point; the oracle is the fold of the library's own pairwise merges on "
                   "independently loaded copies, and the document count as a function of mode and stream lengths."),
    "level_note": "Pairwise step semantics are C05's subject; right-hand streams with an empty document are exercised through the library functions only.",
    "technique": "runtime twin-differential monitor: mode result vs fold of pairwise merges on independent copies; CLI sample",
}

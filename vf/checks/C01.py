"""C01 — query results equal the documented segment semantics.

Monitors: boundary recorder around Processor.get_nodes / exists (results are
flattened: a slice's virtual wrapper is replaced by the wrapped nodes), purity
fingerprint around every read (mutations are counted for C09), reach.
Oracle: vf.model.pathsem (three-valued reference evaluator on the same live
tree, compared by node identity), plus metamorphic checks that need no model:
dot == slash, exists() <=> non-empty, optional == required when the path fully
exists.
"""
import itertools

from vf.core import yp
from vf.core.yp import Processor, YAMLPath, YAMLPathException, NodeCoords, LOG
from vf.gen import docs as gd
from vf.gen import paths as gp
from vf.model import pathsem as PS
from yamlpath.exceptions import UnmatchedYAMLPathException

PROPERTY = "C01"
LEVEL = "exploration"
RULE = ("(document, path AST) cases: exhaustive grid of every document of <=3 nodes over keys {a,b,1} and scalars "
        "{null,true,1,1.5,'a',''} x every path of <=2 segments over a reduced vocabulary (thorough: complete; quick: "
        "strided sample), plus random documents (regimes N/U/A, 1-40 nodes) x random paths of <=4 segments biased to "
        "keys/terms/anchors present in the document; every case is rendered in dot and slash notation and asked "
        "through get_nodes(mustexist=True), exists() and get_nodes(mustexist=False). Non-trivial = the reference "
        "evaluator selects >=1 node or prescribes an error; distinct by (document text, dot path text)")
ASSUMPTIONS = [
    "the reference evaluator encodes README/docstring/test-pinned semantics; undocumented shapes abstain (counted)",
    "node identity is ambiguous for CPython-shared scalars in regime N (sound but weaker); regime U makes leaves unique",
    "collectors and keyword searches are outside this property's fragment",
]
REACH = [("yamlpath/processor.py", "_get_nodes_by_key,_get_nodes_by_index,_get_nodes_by_anchor", "key/index/slice/anchor handlers"),
         ("yamlpath/processor.py", "_get_nodes_by_search", "search handler"),
         ("yamlpath/processor.py", "_get_nodes_by_traversal,_get_nodes_by_match_all,_get_nodes_by_match_all_filtered,_get_nodes_by_match_all_unfiltered,_get_required_nodes", "traversal / match-all / required driver"),
         ("yamlpath/processor.py", "_get_optional_nodes", "optional driver"),
         ("yamlpath/common/searches.py", "search_matches", "Searches.search_matches")]
EXHAUSTIVE_NOTE = "documents <=3 nodes x paths <=2 segments over the reduced vocabulary (thorough tier only)"
SIZES = {"quick": dict(grid_stride=4, rnd=240000), "thorough": dict(grid_stride=1, rnd=2500000)}
REQUIRED_COUNTERS = ["model_decided", "compared_required", "docs_with_shared_containers", "queries_through_path_object_with_forced_separator"]


def flatten(x, out):
    if isinstance(x, NodeCoords):
        node = x.node
        if isinstance(node, NodeCoords):
            flatten(node, out)
        elif type(node) is list:
            for y in node:
                flatten(y, out)
        else:
            out.append(node)
    else:
        out.append(x)


_REUSE = [0, None, 0]


def real(data, text, mode):
    if _REUSE[1] is None:
        from vf.core.yp import YAMLPath
        _REUSE[1] = YAMLPath("a.b")
        _ = (len(_REUSE[1]), list(_REUSE[1].unescaped))
    return _real(data, text, mode)


def _real(data, text, mode):
    """('OK', nodes, rawcount) | ('UNMATCHED',) | ('YPE', cls) | ('CRASH', cls)"""
    p = Processor(LOG, data)
    # every 7th query hands over a path OBJECT that has been used for an earlier query and was then re-pointed at
    # this text: the answer must be the one for the text it holds now
    _REUSE[0] += 1
    if _REUSE[0] % 7 == 0:
        try:
            _REUSE[1].original = text
            text = _REUSE[1]
        except Exception:
            pass
    kw = {}
    if _REUSE[0] % 11 == 0 and isinstance(text, str):
        # every 11th query hands over a fresh path OBJECT together with pathsep= naming the OTHER notation's separator:
        # that argument decides how the path is shown, the answer is the one for the path as it was written
        from vf.core.yp import YAMLPath
        from yamlpath.enums import PathSeparators
        try:
            obj = YAMLPath(text)
            kw = {"pathsep": PathSeparators.DOT if text.startswith("/") else PathSeparators.FSLASH}
            text = obj
            _REUSE[2] += 1
        except Exception:
            kw = {}
    try:
        if mode == "exists":
            return ("EXISTS", p.exists(text, **kw))
        res = list(p.get_nodes(text, mustexist=(mode == "required"), **kw))
    except UnmatchedYAMLPathException:
        return ("UNMATCHED",)
    except YAMLPathException as e:
        return ("YPE", type(e).__name__)
    except RecursionError:
        return ("CRASH", "RecursionError")
    except Exception as e:
        return ("CRASH", type(e).__name__)
    out = []
    for r in res:
        flatten(r, out)
    return ("OK", out, len(res))


def sig(segs):
    return ".".join(s[0] if s[0] != "SEARCH" else ("SEARCH:" + ("." if s[3] == "." else "attr")) for s in segs)


def summarize(nodes):
    return [repr(n)[:40] for n in nodes[:12]]


def classify(segs, exp, got_ids, exp_ids):
    kinds = [s[0] for s in segs]
    trav = any(k == "TRAVERSE" and i + 1 < len(kinds) for i, k in enumerate(kinds))
    if set(got_ids) == set(exp_ids) and len(got_ids) > len(exp_ids) and trav:
        return "traverse-filter-duplicates"
    if sorted(got_ids) == sorted(exp_ids) and trav:
        return "traverse-filter-order"
    extra = [g for g in got_ids if g not in set(exp_ids)]
    missing = [e for e in exp_ids if e not in set(got_ids)]
    kind = "extra" if extra and not missing else "missing" if missing and not extra else "different"
    if sorted(got_ids) == sorted(exp_ids):
        kind = "order"
    return "mismatch/%s/%s" % (kind, sig(segs))


class Case:
    pass


def check_case(ctx, doc_text, data, segs, regime="?", fp0=None):
    """Run one (document, path AST) through the real code in both notations and
    three ask-modes and compare with the reference evaluator."""
    try:
        dot = gp.render(segs, ".")
        slash = gp.render(segs, "/")
    except ValueError:
        return data
    if dot.startswith("/"):
        return data
    case = {"doc": doc_text, "dot": dot, "slash": slash, "segs": segs, "regime": regime}
    # ---- reference ------------------------------------------------------------
    ev = PS.Evaluator(segs)
    try:
        exp = ev.run(data)
        model = "OK"
    except PS.Documented:
        exp, model = [], "ERROR"
    except PS.Abstain as a:
        ctx.count("abstain_case/" + str(a).split(":")[0][:40])
        exp, model = None, "ABSTAIN"
    # ---- real, required, both notations ------------------------------------------
    if fp0 is None:
        fp0 = yp.fingerprint(data)
    r_dot = real(data, dot, "required")
    r_slash = real(data, slash, "required")
    ctx.evaluations += 2
    for r in (r_dot, r_slash):
        if r[0] == "CRASH":
            ctx.count("crash_handed_to_C15/" + r[1])
            return data
    # notation agreement (no model needed)
    ctx.count("compared_notations")
    if (r_dot[0] != r_slash[0]
            or (r_dot[0] == "OK" and [id(x) for x in r_dot[1]] != [id(x) for x in r_slash[1]])
            or (r_dot[0] == "YPE" and r_dot[1] != r_slash[1])):
        ctx.violation("notation-disagreement/" + sig(segs), {
            "case": case, "summary": "dot %s -> %s ; slash %s -> %s" % (
                dot, r_dot[:1] + (summarize(r_dot[1]),) if r_dot[0] == "OK" else r_dot,
                slash, r_slash[:1] + (summarize(r_slash[1]),) if r_slash[0] == "OK" else r_slash)})
    # exists <=> non-empty
    ex = real(data, dot, "exists")
    ctx.evaluations += 1
    if ex[0] == "EXISTS":
        nonempty = r_dot[0] == "OK" and r_dot[2] > 0
        if ex[1] != nonempty and r_dot[0] in ("OK", "UNMATCHED"):
            ctx.violation("exists-disagrees/" + sig(segs), {
                "case": case, "summary": "exists=%r but required query %s" % (ex[1], r_dot[0])})
    elif ex[0] == "YPE" and r_dot[0] in ("OK", "UNMATCHED"):
        ctx.violation("exists-disagrees/" + sig(segs), {"case": case, "summary": "exists raised %s" % ex[1]})
    # ---- model comparison ------------------------------------------------------------
    got = r_dot
    if model == "ABSTAIN":
        pass
    elif model == "ERROR":
        ctx.count("model_decided")
        ctx.mark_nontrivial([doc_text, dot])
        if got[0] != "YPE":
            ctx.violation("no-error-where-documented/" + sig(segs), {
                "case": case, "summary": "documented YAML Path error, got %s" % (got[0],)})
    else:
        must = [p for p in exp if p.sure]
        maybe = [p for p in exp if not p.sure]
        if got[0] == "YPE":
            if must:
                ctx.violation("error-instead-of-result/%s/%s" % (got[1], sig(segs)), {
                    "case": case, "summary": "%s raised; documented selection %s" % (
                        got[1], summarize([p.node for p in must]))})
            else:
                ctx.count("abstain_error_on_unspecified")
        else:
            got_nodes = got[1] if got[0] == "OK" else []
            got_ids = [id(x) for x in got_nodes]
            ctx.count("model_decided")
            ctx.count("compared_required")
            if must or maybe:
                ctx.mark_nontrivial([doc_text, dot])
            if not maybe:
                exp_ids = [id(p.node) for p in must]
                if got_ids != exp_ids:
                    # order by document position for the order verdict
                    doc_order = [id(p.node) for p in sorted(must, key=lambda p: p.ord)]
                    mech = classify(segs, must, got_ids, exp_ids)
                    if mech == "traverse-filter-order" and got_ids == exp_ids:
                        mech = None
                    if mech:
                        ctx.violation(mech, {"case": case, "summary": "got %s ; documented %s" % (
                            summarize(got_nodes), summarize([p.node for p in must]))})
                else:
                    doc_order = [id(p.node) for p in sorted(must, key=lambda p: p.ord)]
                    if got_ids != doc_order and len(set(got_ids)) == len(got_ids):
                        kinds = [s[0] for s in segs]
                        trav = any(k == "TRAVERSE" and i + 1 < len(kinds) for i, k in enumerate(kinds))
                        ctx.violation("traverse-filter-order" if trav else "not-document-order/" + sig(segs), {
                            "case": case, "summary": "got %s ; document order %s" % (
                                summarize(got_nodes),
                                summarize([p.node for p in sorted(must, key=lambda p: p.ord)]))})
            else:
                ctx.count("partly_unspecified_cases")
                allowed = {id(p.node) for p in exp}
                mset = [id(p.node) for p in must]
                miss = [m for m in mset if m not in got_ids]
                extra = [g for g in got_ids if g not in allowed]
                if miss or extra:
                    ctx.violation("mismatch/%s/%s" % ("missing" if miss else "extra", sig(segs)), {
                        "case": case, "summary": "got %s ; must %s ; may %s" % (
                            summarize(got_nodes), summarize([p.node for p in must]),
                            summarize([p.node for p in maybe]))})
    # ---- optional == required on a fully existing path ----------------------------------
    if (model == "OK" and not ev.dead_branch and r_dot[0] == "OK" and r_dot[2] > 0
            and not any(s[0] in ("SLICE", "HSLICE") for s in segs)):
        o = real(data, dot, "optional")
        ctx.evaluations += 1
        ctx.count("compared_optional")
        if o[0] == "CRASH":
            ctx.count("crash_handed_to_C15/" + o[1])
        elif o[0] != "OK" or [id(x) for x in o[1]] != [id(x) for x in r_dot[1]]:
            ctx.violation("optional-differs/" + sig(segs), {
                "case": case, "summary": "required %s ; optional %s" % (
                    summarize(r_dot[1]), summarize(o[1]) if o[0] == "OK" else o)})
    # ---- purity (handed to C09) ------------------------------------------------------------
    if yp.fingerprint(data) != fp0:
        ctx.count("mutation_by_read_handed_to_C09")
        data = yp.load(doc_text)
    return data


def grid_docs():
    out = []
    for n in (1, 2, 3):
        for t in gd.enum_trees(n):
            out.append(gd.render(t))
    return out


def grid_paths():
    segs = gp.reduced_segments()
    paths = [[s] for s in segs]
    for a, b in itertools.product(segs, segs):
        paths.append([a, b])
    return paths


SEEDS = [
    ("[{a: 1}, {b: 2}, {a: 3}]", [("SEARCH", False, "=", "a", "1")]),
    ("{a: 1, ab: 2, c: 3}", [("TRAVERSE",), ("SEARCH", False, "^", ".", "a")]),
    ("{x: {y: {z: 1}}, y: {z: 2}}", [("TRAVERSE",), ("ALL",)]),
    ("{x: {y: {z: 1}}, y: {z: 2}}", [("TRAVERSE",), ("KEY", "y"), ("KEY", "z")]),
    ("{a: [{b: 1}, {b: 2}]}", [("KEY", "a"), ("KEY", "b")]),
    ("{1: a, 2: b}", [("KEY", "1")]),
    ("[a, b, c]", [("SLICE", 1, 3)]),
    ("[a, b, c]", [("SLICE", 1, 1)]),
    ("[[a, b], [c]]", [("INDEX", 0), ("INDEX", -1)]),
    ("{a: &A1 x, b: *A1, c: [*A1, y]}", [("ANCHOR", "A1")]),
]


def run_shard(ctx):
    rng = ctx.rng
    sz = SIZES[ctx.tier]
    if ctx.shard == 0:
        for d, segs in SEEDS:
            check_case(ctx, d, yp.load(d), segs, "seed")
            ctx.sample({"doc": d, "path": gp.render(segs, ".")})
    # ---- grid ----------------------------------------------------------------
    docs = grid_docs()
    paths = grid_paths()
    stride = sz["grid_stride"]
    off = ctx.seed % stride
    k = 0
    for di, d in enumerate(docs):
        if di % ctx.nshards != ctx.shard:
            continue
        data = yp.load(d)
        fp0 = yp.fingerprint(data)
        for pi, segs in enumerate(paths):
            k += 1
            if (k + off) % stride:
                continue
            nd = check_case(ctx, d, data, segs, "grid", fp0)
            ctx.count("grid_cases")
            if nd is not data:
                data = nd
                fp0 = yp.fingerprint(data)
    # ---- random ----------------------------------------------------------------
    done = 0
    want = sz["rnd"] // ctx.nshards
    while done < want:
        x = rng.random()
        if x < 0.08:
            text, regime = rng.choice(gd.HOSTILE), "H"
        elif x < 0.13:
            # one Hash / Array held under two or three parents (anchor + aliases): every place it is held is a place
            text, regime = gd.gen_aliased_container_doc(rng), "S"
            ctx.count("docs_with_shared_containers")
        else:
            text, regime = gd.gen_doc(rng)
        try:
            data = yp.load(text)
        except yp.LoadError:
            continue
        if data is not None and hasattr(data, "merge") and False:
            continue
        vocab = gp.doc_vocab(data)
        pg = gp.PathGen(rng, vocab)
        fp0 = yp.fingerprint(data)
        for _ in range(rng.choice([6, 10, 16])):
            segs = pg.path()
            nd = check_case(ctx, text, data, segs, regime, fp0)
            if nd is not data:
                data = nd
                fp0 = yp.fingerprint(data)
            done += 1
            ctx.count("random_cases")
            if done <= 2:
                ctx.sample({"doc": text, "path": gp.render(segs, "."), "regime": regime})
    ctx.counters["queries_through_path_object_with_forced_separator"] = _REUSE[2]


def finish(merged):
    if merged["tier"] == "thorough":
        merged["exhaustive"] = True


def replay(w):
    c = w["case"]
    data = yp.load(c["doc"])
    segs = [tuple(s) for s in c["segs"]]
    ev = PS.Evaluator(segs)
    try:
        exp = ev.run(data)
        m = {"must": summarize([p.node for p in exp if p.sure]), "may": summarize([p.node for p in exp if not p.sure])}
    except (PS.Documented, PS.Abstain) as e:
        m = {"model": repr(e)}
    out = {"model": m}
    for mode in ("required", "exists", "optional"):
        for name in ("dot", "slash"):
            r = real(yp.load(c["doc"]), c[name], mode)
            out["%s/%s" % (mode, name)] = (r[0], summarize(r[1])) if r[0] == "OK" else r

    class _Ctx:
        def __init__(self):
            self.v = []
            self.evaluations = 0

        def count(self, *a):
            pass

        def mark_nontrivial(self, *a):
            pass

        def violation(self, m, w):
            self.v.append(m)
    cx = _Ctx()
    check_case(cx, c["doc"], data, segs)
    out["violated"] = bool(cx.v)
    out["mechanisms"] = cx.v
    return out


MANIFEST = {
    "level_text": ("Exploration with an exhaustive small grid (thorough): every document of <=3 nodes x every path of <=2 "
                   "segments over a reduced vocabulary, plus 10^5-10^6 random (document, path) cases; each case runs "
                   "through the real Processor in both notations and three ask-modes; results are compared by node "
                   "identity, order and multiplicity with a three-valued clean-room reference evaluator, and by "
                   "model-free metamorphic relations (dot==slash, exists<=>non-empty, optional==required)."),
    "level_note": ("The reference evaluator is my reading of README/docstrings/pinned tests; undocumented shapes abstain "
                   "(counted in evidence). Beyond the grid bound only sampled cases are seen."),
    "technique": "runtime differential monitor: real query results vs three-valued reference evaluator + metamorphic relations",
}

"""C16 — the command-line tools deliver the library's answers and honest exit codes.

Every case is pushed through the real entry point (yamlpath.commands.<tool>.main
with fresh argv / stdin / stdout, SystemExit caught) and compared with the
library driven directly by the harness.  A sample is also run through the
installed console scripts as real subprocesses to check that the in-process
launcher is faithful.
"""
import json
import os
import re
import subprocess
from types import SimpleNamespace

from vf.core import yp
from vf.core.yp import Processor, YAMLPath, YAMLPathException, NodeCoords, LOG
from vf.gen import docs as gd
from vf.gen import paths as gp
from vf.mon import cli
from vf.checks import C05, C06
from yamlpath.differ import Differ, DifferConfig
from yamlpath.differ.enums import DiffActions
from yamlpath.merger import Merger, MergerConfig
from yamlpath.merger.exceptions import MergeException
from yamlpath.exceptions import UnmatchedYAMLPathException

PROPERTY = "C16"
LEVEL = "exploration"
RULE = ("cases drawn from the C01/C03-C06 generators, rendered as temp files (YAML and JSON) and pushed through the real "
        "main() of yaml-get, yaml-set, yaml-merge, yaml-diff and yaml-validate (yaml-paths is C07's CLI sample), with "
        "file and stdin delivery; each compared with the library answer for the same inputs; a sample re-run through "
        "/venv/bin/yaml-* as subprocesses. Non-trivial = the tool ran to an exit status on a loadable case; distinct by "
        "(tool, inputs, argv)")
ASSUMPTIONS = ["scalar rendering of yaml-get follows --help: str() of the node with newlines shown as \\\\n, null as a NUL byte, containers as one-line JSON",
               "yaml-set's -a value is a string which the library types: the twin library call receives the same string",
               "where the library answer itself is a finding of C01/C03-C06 it is not re-judged here (differential only)"]
REACH = [("yamlpath/commands/yaml_get.py", "main,validateargs", "yaml_get.main"),
         ("yamlpath/commands/yaml_set.py", "main,write_output_document,save_to_file,save_to_yaml_file,save_to_json_file,_get_nodes", "yaml_set.main / write-out"),
         ("yamlpath/commands/yaml_merge.py", "main,write_output_document,merge_docs,get_doc_mergers", "yaml_merge.main / write-out"),
         ("yamlpath/commands/yaml_diff.py", "main,print_report", "yaml_diff.main / print_report"),
         ("yamlpath/commands/yaml_validate.py", "main,process_file", "yaml_validate.main"),
         ("yamlpath/common/parsers.py", "get_yaml_data,get_yaml_multidoc_data,jsonify_yaml_data", "Parsers")]
SIZES = {"quick": dict(cases=30000, sub=160), "thorough": dict(cases=250000, sub=1500)}
REQUIRED_COUNTERS = ["stdin_vs_file_cases", "set_delete_many_cases", "set_empty_string_value_cases", "validate_implicit_stdin_cases", "get_inherited_values_cases", "get_docs_ending_in_block_scalar", "set_saveto_cases", "merge_one_multidoc_input_cases", "diff_scalar_root_cases", "get_cases", "set_cases", "merge_cases", "diff_cases", "validate_cases", "stdin_cases",
                     "json_cases", "subprocess_cases"]


def pyval(n):
    """Node -> plain python for JSON comparison (keys as JSON would print them)."""
    if isinstance(n, dict):
        return {jkey(k): pyval(v) for k, v in n.items()}
    if yp.is_set(n):
        return {jkey(k): None for k in n}
    if isinstance(n, list):
        return [pyval(e) for e in n]
    sp = yp.scalar_plain(n)
    if sp[0] == "date":
        return DATE
    if sp[0] == "float":
        return float(sp[1])
    return sp[1]


DATE = "\x00date"      # JSON has no dates: they print as some text (which text is not the tools' contract)


def jmatch(got, want):
    if want == DATE:
        return isinstance(got, str) and got[:2] in ("19", "20")
    if isinstance(want, dict):
        return isinstance(got, dict) and set(got.keys()) == set(want.keys()) and all(jmatch(got[k], want[k]) for k in want)
    if isinstance(want, list):
        return isinstance(got, list) and len(got) == len(want) and all(jmatch(a, b) for a, b in zip(got, want))
    return type(got) is type(want) and got == want


def jkey(k):
    if isinstance(k, bool):
        return "true" if k else "false"
    if k is None:
        return "null"
    return str(k)


def jnorm(x):
    """JSON-level normal form (int/float by value)."""
    if isinstance(x, dict):
        return {k: jnorm(v) for k, v in x.items()}
    if isinstance(x, list):
        return [jnorm(v) for v in x]
    if isinstance(x, bool) or x is None:
        return x
    if isinstance(x, (int, float)):
        return float(x)
    return x


def expect_get_lines(data, path):
    """('OK', [line spec]) | ('NOMATCH',) | ('YPE',)"""
    try:
        res = list(Processor(LOG, data).get_nodes(path, mustexist=True))
    except UnmatchedYAMLPathException:
        return ("NOMATCH",)
    except YAMLPathException:
        return ("YPE",)
    lines = []
    for r in res:
        n = NodeCoords.unwrap_node_coords(r)
        if isinstance(n, (dict, list)) or yp.is_set(n):
            lines.append(("json", jnorm(pyval(n) if not isinstance(n, list) or isinstance(n, yp.CommentedSeq) else [pyval(e) for e in n])))
        elif n is None:
            lines.append(("text", "\x00"))
        else:
            sp = yp.scalar_plain(n)
            if sp[0] == "date":
                lines.append(("any", None))
            else:
                lines.append(("text", str(n).replace("\n", "\\n")))
    return ("OK", lines)


class Box:
    def __init__(self, workdir):
        self.dir = workdir
        os.makedirs(workdir, exist_ok=True)
        self.n = 0

    def file(self, text, ext="yaml"):
        self.n += 1
        p = os.path.join(self.dir, "f%d.%s" % (self.n % 50, ext))
        with open(p, "w") as f:
            f.write(text)
        return p


def to_json_text(data):
    return json.dumps(pyval(data))


def jsonable(data):
    """No sets, anchors-agnostic, string keys only: representable as a JSON input document."""
    if isinstance(data, dict):
        return all(isinstance(k, str) for k in data) and all(jsonable(v) for v in data.values())
    if yp.is_set(data):
        return False
    if isinstance(data, list):
        return all(jsonable(v) for v in data)
    return yp.scalar_plain(data)[0] in ("str", "int", "bool", "null")


def doc_text(rng, tree):
    """Mostly block style (the tools write YAML for block roots, JSON for flow roots)."""
    if rng.random() < 0.8:
        return gd.render_block(tree), "block"
    return gd.render(tree) + "\n", "flow"


# ---- yaml-get ------------------------------------------------------------------------------------------
def case_get(ctx, rng, box, sub):
    tree, _ = gd.gen_doc_tree(rng, rng.choice(["N", "U", "A"]))
    text, _style = doc_text(rng, tree)
    if rng.random() < 0.03:
        text = rng.choice(["null\n", "", "---\n", "~\n"])        # empty / null documents match nothing
    try:
        data = yp.load(text)
    except yp.LoadError:
        return
    tail_block = None
    if _style == "block" and isinstance(data, dict) and len(data) and "zlast" not in data and rng.random() < 0.12:
        # the document ENDS in a block scalar: its final line break(s) are data
        tail_block = rng.choice(["|\n  hello\n  world\n", ">\n  folded\n  text\n", "|+\n  keep\n\n\n", "|-\n  strip\n", "|\n  one\n"])
        text = text.rstrip("\n") + "\nzlast: " + tail_block
        try:
            data = yp.load(text)
        except yp.LoadError:
            return
        ctx.counters["get_docs_ending_in_block_scalar"] = ctx.counters.get("get_docs_ending_in_block_scalar", 0) + 1
    pg = gp.PathGen(rng, gp.doc_vocab(data), keywords=rng.random() < 0.2)
    segs = pg.path() if tail_block is None or rng.random() < 0.3 else [("KEY", "zlast")]
    sep = rng.choice([".", "/"])
    try:
        path = gp.render(segs, sep)
    except ValueError:
        return
    if rng.random() < 0.04:
        # mappings that INHERIT values JSON cannot print as they are (dates, anchored Booleans, sets) through a YAML
        # Merge Key whose source lies outside the printed sub-tree
        inh = rng.sample(["created: 2020-01-02", "enabled: &e true", "off: &f false", "n: 1", "tags: !!set {x, y}",
                          "when: 2001-12-14T21:59:43Z", "name: web", "ratio: 1.5"], rng.randrange(1, 5))
        text = "base: &b\n%sservices:\n  web:\n    <<: *b\n    port: 80\n  db:\n    <<: [*b]\n    n: 2\n  plain: {k: 1}\n" % (
            "".join("  %s\n" % x for x in inh))
        data = yp.load(text)
        path = rng.choice(["services.web", "/services/db", "services.*", "/services", "services.w*", "services.web.enabled", "**.port[parent()]"])
        tail_block = "n/a"
        ctx.counters["get_inherited_values_cases"] = ctx.counters.get("get_inherited_values_cases", 0) + 1
    if path.startswith("-"):
        return
    as_json = rng.random() < 0.2 and data is not None and jsonable(data) and tail_block is None
    src = to_json_text(data) if as_json else text
    if as_json:
        data = yp.load(src)
        ctx.counters["json_cases"] = ctx.counters.get("json_cases", 0) + 1
    exp = expect_get_lines(data, path) if data is not None else ("NOMATCH",)
    via_stdin = rng.random() < (0.6 if tail_block else 0.3)
    case = {"tool": "yaml-get", "doc": src, "path": path, "stdin": via_stdin}
    argv = ["-p", path]
    if via_stdin:
        ctx.counters["stdin_cases"] = ctx.counters.get("stdin_cases", 0) + 1
        mode = rng.choice(["dash", "implicit"])
        r = cli.run("yaml_get", argv + (["-"] if mode == "dash" else []), stdin_text=src)
    else:
        f = box.file(src, "json" if as_json else "yaml")
        r = cli.run("yaml_get", argv + ["-S", f])
        if sub:
            subprocess_check(ctx, case, "yaml-get", argv + ["-S", f], r)
    ctx.evaluations += 1
    ctx.counters["get_cases"] = ctx.counters.get("get_cases", 0) + 1
    ctx.mark_nontrivial(["get", src, path, via_stdin])
    if r["exc"]:
        ctx.violation("yaml-get/crash", {"case": case, "summary": r["exc"][:200]})
        return
    if exp[0] == "OK" and len(exp[1]) == 0:
        exp = ("NOMATCH",)
    if exp[0] != "OK":
        if r["code"] == 0:
            ctx.violation("yaml-get/exit-0-without-match", {"case": case, "summary": "library: %s ; stdout %r" % (exp[0], r["out"][:100])})
        return
    if r["code"] != 0:
        ctx.violation("yaml-get/nonzero-exit-with-match", {"case": case, "summary": "exit %d, %d library results; stderr %r" % (
            r["code"], len(exp[1]), r["err"][:150])})
        return
    got = r["out"].split("\n")
    if got and got[-1] == "":
        got = got[:-1]
    if len(got) != len(exp[1]):
        ctx.violation("yaml-get/line-count", {"case": case, "summary": "%d lines for %d results: %r" % (len(got), len(exp[1]), got[:5])})
        return
    for g, (kind, want) in zip(got, exp[1]):
        if kind == "any":
            continue
        if kind == "json":
            try:
                ok = jmatch(jnorm(json.loads(g)), want)
            except ValueError:
                ok = False
        else:
            ok = g == want
        if not ok:
            ctx.violation("yaml-get/line-differs/%s" % kind, {"case": case, "summary": "printed %r ; library result renders as %r" % (g[:120], want)})
            return


# ---- yaml-set ------------------------------------------------------------------------------------------
def case_set(ctx, rng, box, sub):
    from vf.checks.C03 import path_to_random_scalar
    from vf.checks import editsteps as ES
    tree, _ = gd.gen_doc_tree(rng, rng.choice(["N", "U", "A"]))
    text, style = doc_text(rng, tree)
    text = text.rstrip("\n")
    try:
        data = yp.load(text)
    except yp.LoadError:
        return
    if not isinstance(data, (dict, list)) or yp.is_set(data) or not ES.roundtrips(data):
        return
    op = rng.choice(["set", "set", "create", "delete", "mustexist-miss", "check-fail"])
    value = rng.choice(["zz", "new value", "7", "2.5", "true", "x y", "abc", ""])      # (the empty String is a value like any other)
    if value == "":
        ctx.count("set_empty_string_value_cases")
    segs = path_to_random_scalar(rng, data)
    if op in ("set", "delete", "check-fail") and segs is None:
        return
    if op == "create":
        g = ES.gen_creation(rng, data)
        if g is None:
            return
        segs = g[0]
    if op == "mustexist-miss":
        segs = [("KEY", "no_such_key_zz"), ("KEY", "x")]
    sep = rng.choice([".", "/"])
    try:
        path = gp.render(segs, sep)
    except ValueError:
        return
    if path.startswith("-"):
        return
    f = box.file(text + "\n")
    before = open(f, "rb").read()
    argv = ["-g", path, "-S"]
    twin = yp.load(text)
    exp_err = False
    try:
        if op == "delete":
            argv += ["-D"]
            nodes = list(Processor(LOG, twin).get_nodes(path, mustexist=True))
            Processor(LOG, twin).delete_gathered_nodes(nodes)
        elif op == "mustexist-miss":
            argv += ["-a", value, "-m"]
            exp_err = True
        elif op == "check-fail":
            argv += ["-a", value, "-c", "certainly-not-the-old-value"]
            exp_err = True
        else:
            argv += ["-a", value]
            if op == "set" and isinstance(twin, dict) and "bak_zz" not in twin and rng.random() < 0.3:
                # --saveto: the OLD value is kept under a new key (and must stay the old value after the change)
                import copy as _copy
                olds = list(Processor(LOG, twin).get_nodes(path, mustexist=True))
                if len(olds) == 1 and not yp.is_container(olds[0].node):
                    argv += ["-s", "bak_zz" if sep == "." else "/bak_zz"]
                    saved = _copy.deepcopy(olds[0].node)
                    if hasattr(saved, "anchor") and yp.anchor_of(saved):
                        saved.yaml_set_anchor(None)
                    Processor(LOG, twin).set_value(path, value, value_format="default", mustexist=False)
                    twin["bak_zz"] = saved
                    ctx.counters["set_saveto_cases"] = ctx.counters.get("set_saveto_cases", 0) + 1
                else:
                    Processor(LOG, twin).set_value(path, value, value_format="default", mustexist=False)
            else:
                Processor(LOG, twin).set_value(path, value, value_format="default", mustexist=False)
    except YAMLPathException:
        exp_err = True
    except Exception:
        ctx.count("library_crash_left_to_C03_C15")
        return
    case = {"tool": "yaml-set", "doc": text, "argv": argv}
    r = cli.run("yaml_set", argv + [f], sandbox=box.dir)
    ctx.evaluations += 1
    ctx.counters["set_cases"] = ctx.counters.get("set_cases", 0) + 1
    ctx.mark_nontrivial(["set", text, argv])
    if r["exc"]:
        ctx.violation("yaml-set/crash", {"case": case, "summary": r["exc"][:200]})
        return
    after = open(f, "rb").read()
    if exp_err:
        if r["code"] == 0:
            ctx.violation("yaml-set/exit-0-on-failure/%s" % op, {"case": case, "summary": "file now %r" % after[:150]})
        elif after != before:
            ctx.violation("yaml-set/failed-but-file-changed/%s" % op, {"case": case, "summary": "file now %r" % after[:150]})
        return
    if r["code"] != 0:
        ctx.violation("yaml-set/nonzero-exit/%s" % op, {"case": case, "summary": "exit %d: %s" % (r["code"], r["err"][:150])})
        return
    try:
        back = yp.load(after.decode())
    except yp.LoadError:
        ctx.violation("yaml-set/file-does-not-reload/%s" % op, {"case": case, "summary": "%r" % after[:200]})
        return
    from vf.model import edits as E
    if style == "flow":
        # a flow-style root is written back as JSON: compare at JSON level
        ctx.counters["json_cases"] = ctx.counters.get("json_cases", 0) + 1
        ok = jnorm(pyval(back)) == jnorm(pyval(twin))
        if not ok:
            ctx.violation("yaml-set/json-file-differs-from-library/%s" % op, {"case": case, "summary": "file %r ; library twin %r" % (
                after[:150], json.dumps(pyval(twin))[:150])})
        return
    a, b = E.strip_anchors(E.image(back)), E.strip_anchors(E.image(twin))
    if a != b:
        ctx.violation("yaml-set/file-differs-from-library/%s" % op, {"case": case, "summary": "file %r ; library twin %r ; at %r" % (
            after[:150], yp.dump(twin)[:150], E.diff(b, a)[:2])})
    if sub and op in ("set", "create"):
        f2 = box.file(text + "\n")
        subprocess_files(ctx, case, "yaml-set", argv + [f2], f2, after)


def case_set_delete_many(ctx, rng, box, sub):
    """yaml-set --delete with a path matching SEVERAL elements of ONE list - reported out of index order (inverted max/min,
    !unique), or one element reached twice (an aliased sequence under a wildcard) - leaves the file the library's delete of
    all gathered matches leaves."""
    n = rng.randrange(3, 7)
    vals = [rng.choice([1, 2, 3, 5, 5, 8, 9]) for _ in range(n)]
    words = [rng.choice(["alpha", "beta", "gamma", "delta", "beta"]) for _ in range(n)]
    shape = rng.choice(["minmax", "minmax", "aliased", "unique", "search"])
    if shape == "minmax":
        text = "scores: [%s]\nkeep: [1, 2]" % ", ".join(map(str, vals))
        path = rng.choice(["/scores[!max()]", "scores[!min()]", "/scores[!max()]", "/scores[max()]"])
    elif shape == "unique":
        text = "scores: [%s]\nkeep: x" % ", ".join(words)
        path = rng.choice(["/scores[!unique()]", "scores[unique()]", "/scores[distinct()]"])
    elif shape == "aliased":
        text = "primary: &P [%s]\nbackup: *P\nkeep: [alpha]" % ", ".join(words)
        path = rng.choice(["/*[0]", "/*[%d]" % (n - 1), "*[.=beta]", "/**[.^a]", "/*[1:3]"])
    else:
        text = "scores: [%s]\nkeep: 1" % ", ".join(map(str, vals))
        path = rng.choice(["/scores[.>2]", "scores[.!=5]", "/scores[1:3]", "(/scores[0])+(/scores[2])"])
    try:
        twin = yp.load(text)
        nodes = list(Processor(LOG, twin).get_nodes(path, mustexist=True))
        Processor(LOG, twin).delete_gathered_nodes(nodes)
        exp_err = False
    except YAMLPathException:
        exp_err = True
    except Exception:
        ctx.count("library_crash_left_to_C03_C15")
        return
    f = box.file(text + "\n")
    before = open(f, "rb").read()
    argv = ["-g", path, "-D", "-S"]
    case = {"tool": "yaml-set", "doc": text, "argv": argv}
    r = cli.run("yaml_set", argv + [f], sandbox=box.dir)
    ctx.evaluations += 1
    ctx.counters["set_delete_many_cases"] = ctx.counters.get("set_delete_many_cases", 0) + 1
    if not exp_err and len(nodes) >= 2:
        ctx.mark_nontrivial(["delete-many", text, argv])
    if r["exc"]:
        ctx.violation("yaml-set/crash", {"case": case, "summary": r["exc"][:200]})
        return
    after = open(f, "rb").read()
    if exp_err:
        if r["code"] == 0:
            ctx.violation("yaml-set/exit-0-on-failure/delete-many", {"case": case, "summary": "file now %r" % after[:150]})
        elif after != before:
            ctx.violation("yaml-set/failed-but-file-changed/delete-many", {"case": case, "summary": "file now %r" % after[:150]})
        return
    if r["code"] != 0:
        ctx.violation("yaml-set/nonzero-exit/delete-many", {"case": case, "summary": "exit %d: %s" % (r["code"], r["err"][:150])})
        return
    try:
        back = yp.load(after.decode())
    except yp.LoadError:
        ctx.violation("yaml-set/file-does-not-reload/delete-many", {"case": case, "summary": "%r" % after[:200]})
        return
    from vf.model import edits as E
    a, b = E.strip_anchors(E.image(back)), E.strip_anchors(E.image(yp.load(yp.dump(twin))))
    if a != b:
        ctx.violation("yaml-set/file-differs-from-library/delete-many", {"case": case, "summary": "file %r ; library twin %r" % (
            after[:150], yp.dump(twin)[:150])})


def case_stdin_stream(ctx, rng, box, sub):
    """The same bytes delivered as a FILE and on STDIN give the same answer: yaml-merge writes the same document, yaml-diff of
    the file against its own bytes on STDIN reports nothing.  The documents END in a block scalar (|, >, |+, >+, |-) whose
    final line breaks are data."""
    style = rng.choice(["|", ">", "|+", ">+", "|-", "|", ">"])
    body = rng.choice(["line one\n  line two\n", "only line\n", "a\n  b\n\n", "text\n\n\n"])
    head = rng.choice(["name: x\n", "l:\n  - 1\n  - 2\n", "a:\n  b: 1\n"])
    text = "%sbody: %s\n  %s" % (head, style, body.replace("\n", "\n  ").rstrip(" "))
    if not text.endswith("\n"):
        text += "\n"
    if rng.random() < 0.3:
        text = "---\n" + text
    try:
        if yp.load(text) is None:
            return
    except yp.LoadError:
        return
    f = box.file(text)
    ctx.evaluations += 1
    ctx.counters["stdin_vs_file_cases"] = ctx.counters.get("stdin_vs_file_cases", 0) + 1
    ctx.mark_nontrivial(["stdin-vs-file", text])
    case = {"tool": "yaml-merge / yaml-diff", "doc": text}
    a = cli.run("yaml_merge", ["-S", f], sandbox=box.dir)
    b = cli.run("yaml_merge", ["-"], stdin_text=text, sandbox=box.dir)
    if a["exc"] or b["exc"]:
        ctx.violation("yaml-merge/crash", {"case": case, "summary": (a["exc"] or b["exc"])[:200]})
        return
    if (a["code"], a["out"]) != (b["code"], b["out"]):
        ctx.violation("yaml-merge/stdin-differs-from-file", {"case": case, "summary": "file: exit %d %r ; STDIN: exit %d %r" % (
            a["code"], a["out"][-120:], b["code"], b["out"][-120:])})
        return
    d = cli.run("yaml_diff", [f, "-"], stdin_text=text, sandbox=box.dir)
    if d["exc"]:
        ctx.violation("yaml-diff/crash", {"case": case, "summary": d["exc"][:200]})
        return
    if d["code"] != 0 or d["out"].strip():
        ctx.violation("yaml-diff/file-differs-from-its-own-bytes-on-stdin", {"case": case, "summary": "exit %d output %r" % (d["code"], d["out"][:200])})


# ---- yaml-merge -----------------------------------------------------------------------------------------
def case_merge(ctx, rng, box, sub):
    lt = C05.gen_tree(rng, 0, rng.choice(["map", "map", "seq", "aoh"]))
    rt = C05.derive(rng, lt) if rng.random() < 0.7 else C05.gen_tree(rng, 0, rng.choice(["map", "seq", "aoh", "scalar"]))
    ltext, rtext = gd.render_block(lt).rstrip("\n"), gd.render_block(rt).rstrip("\n")
    combo = rng.choice(C05.ALL_COMBOS)
    try:
        L, R = yp.load(ltext), yp.load(rtext)
    except yp.LoadError:
        return
    if L is None or R is None:
        return
    m = Merger(LOG, L, MergerConfig(LOG, SimpleNamespace(hashes=combo[0], arrays=combo[1], aoh=combo[2], sets=combo[3])))
    try:
        m.merge_with(R)
        exp = ("OK", m.data)
    except (MergeException, YAMLPathException):
        exp = ("ERR",)
    except Exception:
        ctx.count("library_crash_left_to_C05")
        return
    fmt = rng.choice(["yaml", "yaml", "json"])
    lf, rf = box.file(ltext + "\n"), box.file(rtext + "\n")
    argv = ["-S", "-D", fmt, "-H", combo[0], "-A", combo[1], "-O", combo[2], "-E", combo[3]]
    to_file = rng.random() < 0.3
    via_stdin = (not to_file) and rng.random() < 0.3
    out = os.path.join(box.dir, "out-%d.%s" % (rng.randrange(10 ** 6), "json" if fmt == "json" else "yaml"))
    if os.path.exists(out):
        os.unlink(out)
    one_input = rng.random() < 0.15 and isinstance(L, (dict, list)) and isinstance(R, (dict, list))
    case = {"tool": "yaml-merge", "lhs": ltext, "rhs": rtext, "argv": argv, "to_file": to_file, "stdin": via_stdin,
            "one_multi_document_input": one_input}
    if one_input:
        # both documents in ONE input (file or stdin): the default multi-document mode condenses them into one
        multi = "---\n" + ltext + "\n---\n" + rtext + "\n"
        ctx.counters["merge_one_multidoc_input_cases"] = ctx.counters.get("merge_one_multidoc_input_cases", 0) + 1
        if via_stdin:
            ctx.counters["stdin_cases"] = ctx.counters.get("stdin_cases", 0) + 1
            r = cli.run("yaml_merge", [a for a in argv if a != "-S"] + ["-"], stdin_text=multi)
        else:
            r = cli.run("yaml_merge", argv + (["-o", out] if to_file else []) + [box.file(multi)])
    elif via_stdin:
        ctx.counters["stdin_cases"] = ctx.counters.get("stdin_cases", 0) + 1
        r = cli.run("yaml_merge", [a for a in argv if a != "-S"] + [lf, "-"], stdin_text=rtext + "\n")
    else:
        r = cli.run("yaml_merge", argv + (["-o", out] if to_file else []) + [lf, rf])
    ctx.evaluations += 1
    ctx.counters["merge_cases"] = ctx.counters.get("merge_cases", 0) + 1
    if fmt == "json":
        ctx.counters["json_cases"] = ctx.counters.get("json_cases", 0) + 1
    ctx.mark_nontrivial(["merge", ltext, rtext, argv, to_file, via_stdin])
    if r["exc"]:
        ctx.violation("yaml-merge/crash", {"case": case, "summary": r["exc"][:200]})
        return
    if exp[0] == "ERR":
        if r["code"] == 0:
            ctx.violation("yaml-merge/exit-0-on-merge-error", {"case": case, "summary": r["out"][:150]})
        elif to_file and os.path.exists(out):
            ctx.violation("yaml-merge/output-written-on-error", {"case": case, "summary": open(out).read()[:150]})
        return
    if r["code"] != 0:
        ctx.violation("yaml-merge/nonzero-exit", {"case": case, "summary": "exit %d: %s" % (r["code"], r["err"][:150])})
        return
    body = open(out).read() if to_file else r["out"]
    if to_file:
        os.unlink(out)
    try:
        if fmt == "json":
            got = jnorm(json.loads(body))
            want = jnorm(pyval(exp[1]))
            ok = got == want
        else:
            back = yp.load(body)
            ok = C06.norm(back) == C06.norm(exp[1])
    except (ValueError, yp.LoadError):
        ctx.violation("yaml-merge/output-does-not-load/%s" % fmt, {"case": case, "summary": body[:200]})
        return
    if not ok:
        ctx.violation("yaml-merge/output-differs-from-library/%s" % fmt, {"case": case, "summary": "printed %r ; library %r" % (
            body[:150], yp.dump(exp[1])[:150])})
    if sub and not to_file and not via_stdin and not one_input:
        subprocess_check(ctx, case, "yaml-merge", argv + [lf, rf], r)


# ---- yaml-diff --------------------------------------------------------------------------------------------
ENTRY_RE = re.compile(r"^([acds]) (\S.*|-)$")


def case_diff(ctx, rng, box, sub):
    t = C06.gen_tree(rng, 0, rng.choice(["map", "map", "seq", "aoh"]))
    x = rng.random()
    t2 = t if x < 0.25 else C06.gen_tree(rng, 0, "map") if x > 0.9 else C06.edit_tree(rng, C06.edit_tree(rng, t))
    if rng.random() < 0.12:
        # scalar-rooted documents on one or both sides (falsy ones included: 0, 0.0, false, null)
        sc = lambda: ("s", rng.choice(["0", "0.0", "false", "null", "~", "1", "true", "a", "1.5", "'0'"]))
        t, t2 = (sc(), sc()) if rng.random() < 0.7 else (t, sc())
        ctx.counters["diff_scalar_root_cases"] = ctx.counters.get("diff_scalar_root_cases", 0) + 1
    ltext, rtext = gd.render_block(t).rstrip("\n"), gd.render_block(t2).rstrip("\n")
    try:
        L, R = yp.load(ltext), yp.load(rtext)
    except yp.LoadError:
        return
    if (not yp.is_container(L) and str(L) == "") or (not yp.is_container(R) and str(R) == ""):
        return          # yaml-diff treats an empty-string document as an empty document
    arr = rng.choice(C06.ARR)
    aoh = rng.choice(C06.AOH[:3])
    sep = rng.choice([".", "/"])
    try:
        d = Differ(DifferConfig(LOG, SimpleNamespace(arrays=arr, aoh=aoh)), LOG, L)
        d.compare_to(R)
        entries = list(d.get_report())
    except Exception:
        ctx.count("library_crash_left_to_C06")
        return
    want = []
    for e in entries:
        if e.action is not DiffActions.SAME:
            e.pathsep = yp.PathSeparators.DOT if sep == "." else yp.PathSeparators.FSLASH
            want.append((str(e.action), str(e.path) if len(e.path) else "-"))
    lf, rf = box.file(ltext + "\n"), box.file(rtext + "\n")
    argv = ["-A", arr, "-O", aoh, "-t", sep, lf, rf]
    case = {"tool": "yaml-diff", "lhs": ltext, "rhs": rtext, "argv": argv[:-2]}
    r = cli.run("yaml_diff", argv)
    ctx.evaluations += 1
    ctx.counters["diff_cases"] = ctx.counters.get("diff_cases", 0) + 1
    ctx.mark_nontrivial(["diff", ltext, rtext, arr, aoh, sep])
    if r["exc"]:
        ctx.violation("yaml-diff/crash", {"case": case, "summary": r["exc"][:200]})
        return
    differs = bool(want)
    if (r["code"] != 0) != differs or r["code"] not in (0, 1):
        ctx.violation("yaml-diff/exit-status", {"case": case, "summary": "exit %d but the library diff has %d non-SAME entries" % (r["code"], len(want))})
        return
    got = [m.groups() for m in (ENTRY_RE.match(ln) for ln in r["out"].splitlines()) if m]
    if got != want:
        ctx.violation("yaml-diff/entries-differ", {"case": case, "summary": "printed %r ; get_report %r" % (got[:6], want[:6])})
    if sub:
        subprocess_check(ctx, case, "yaml-diff", argv, r)


# ---- yaml-validate -------------------------------------------------------------------------------------------
INVALID = {"syntax": "a: [1, 2\nb: }\n", "duplicate-key": "a: 1\nb: 2\na: 3\n", "duplicate-anchor": "a: &x 1\nb: &x 2\nc: *x\n",
           "undefined-alias": "a: *nope\n", "unclosed-flow": "{a: 1, b: [1, 2}\n", "bad-indent": "a:\n  b: 1\n c: 2\n",
           "tab": "a:\n\t- 1\n"}


def case_validate(ctx, rng, box, sub):
    docs, valid = [], True
    for _ in range(rng.choice([1, 1, 2, 3])):
        if rng.random() < 0.3:
            k = rng.choice(sorted(INVALID))
            docs.append(INVALID[k])
            valid = False
        else:
            tree, _ = gd.gen_doc_tree(rng, rng.choice(["N", "U", "A"]))
            text = gd.render_block(tree)
            try:
                yp.load(text)
            except yp.LoadError:
                continue
            docs.append(text)
    if not docs:
        return
    nfiles = rng.choice([1, 1, 2])
    files = []
    per = max(1, len(docs) // nfiles)
    chunks = [docs[i:i + per] for i in range(0, len(docs), per)]
    for ch in chunks:
        files.append(box.file("".join("---\n" + d for d in ch)))
    # ground truth by the strict loader itself, document by document
    truth = True
    for ch in chunks:
        try:
            yp.load_all("".join("---\n" + d for d in ch))
        except yp.LoadError:
            truth = False
    case = {"tool": "yaml-validate", "files": ["".join("---\n" + d for d in ch) for ch in chunks]}
    via_stdin = len(files) == 1 and rng.random() < 0.3
    if not via_stdin and rng.random() < 0.3:
        # named files AND a waiting (non-TTY) STDIN that nobody mentioned: empty, valid or invalid - it is one more input
        extra = rng.choice(["", "", "ok: 1\n", "---\na: [1]\n---\nb: 2\n", INVALID[rng.choice(sorted(INVALID))]])
        try:
            yp.load_all(extra)
            extra_ok = True
        except yp.LoadError:
            extra_ok = False
        case["implicit_stdin"] = extra
        ctx.counters["validate_implicit_stdin_cases"] = ctx.counters.get("validate_implicit_stdin_cases", 0) + 1
        r = cli.run("yaml_validate", list(files), stdin_text=extra)
        ctx.evaluations += 1
        ctx.mark_nontrivial(["validate", case["files"], "implicit", extra])
        if r["exc"]:
            ctx.violation("yaml-validate/crash", {"case": case, "summary": r["exc"][:200]})
        elif valid and not truth:
            pass
        elif (r["code"] == 0) != (valid and truth and extra_ok):
            ctx.violation("yaml-validate/exit-status/implicit-stdin", {"case": case, "summary": "exit %d ; the files %s, the waiting STDIN %s" % (
                r["code"], "all load" if valid and truth else "do not all load", "loads" if extra_ok else "does not load")})
        return
    if via_stdin:
        ctx.counters["stdin_cases"] = ctx.counters.get("stdin_cases", 0) + 1
        r = cli.run("yaml_validate", ["-"], stdin_text=open(files[0]).read())
    else:
        r = cli.run("yaml_validate", ["-S"] + files)
    ctx.evaluations += 1
    ctx.counters["validate_cases"] = ctx.counters.get("validate_cases", 0) + 1
    ctx.mark_nontrivial(["validate", case["files"], via_stdin])
    if r["exc"]:
        ctx.violation("yaml-validate/crash", {"case": case, "summary": r["exc"][:200]})
        return
    if valid and not truth:
        return      # a generated document the loader rejects: not a by-construction valid case
    want0 = valid and truth
    if (r["code"] == 0) != want0:
        ctx.violation("yaml-validate/exit-status", {"case": case, "summary": "exit %d but %s" % (
            r["code"], "every document loads" if want0 else "some document does not load")})
    elif not want0 and r["code"] != 2:
        ctx.violation("yaml-validate/exit-code-not-2", {"case": case, "summary": "exit %d" % r["code"]})
    if sub and not via_stdin:
        subprocess_check(ctx, case, "yaml-validate", ["-S"] + files, r)


# ---- real console scripts -----------------------------------------------------------------------------------------
def subprocess_check(ctx, case, script, argv, inproc):
    exe = os.path.join(os.path.dirname(os.sys.executable), script)
    if not os.path.exists(exe):
        ctx.count("console_script_missing")
        return
    env = dict(os.environ)
    env["PYTHONPATH"] = yp.REPO_ROOT + os.pathsep + env.get("PYTHONPATH", "")
    try:
        p = subprocess.run([exe] + argv, capture_output=True, text=True, timeout=60, stdin=subprocess.DEVNULL, env=env)
    except subprocess.TimeoutExpired:
        ctx.count("console_script_timeout")
        return
    ctx.counters["subprocess_cases"] = ctx.counters.get("subprocess_cases", 0) + 1
    if p.returncode != inproc["code"] or p.stdout != inproc["out"]:
        ctx.violation("launcher-unfaithful/%s" % script, {"case": case, "summary": "subprocess exit %d out %r ; in-process exit %d out %r" % (
            p.returncode, p.stdout[:120], inproc["code"], inproc["out"][:120])})


def subprocess_files(ctx, case, script, argv, path, want_bytes):
    exe = os.path.join(os.path.dirname(os.sys.executable), script)
    if not os.path.exists(exe):
        return
    env = dict(os.environ)
    env["PYTHONPATH"] = yp.REPO_ROOT + os.pathsep + env.get("PYTHONPATH", "")
    p = subprocess.run([exe] + argv, capture_output=True, text=True, timeout=60, stdin=subprocess.DEVNULL, env=env)
    ctx.counters["subprocess_cases"] = ctx.counters.get("subprocess_cases", 0) + 1
    got = open(path, "rb").read()
    if p.returncode != 0 or got != want_bytes:
        ctx.violation("launcher-unfaithful/%s" % script, {"case": case, "summary": "subprocess exit %d file %r ; in-process file %r" % (
            p.returncode, got[:120], want_bytes[:120])})


def run_shard(ctx):
    rng = ctx.rng
    sz = SIZES[ctx.tier]
    box = Box(os.path.join(os.environ.get("VF_WORKDIR", "/dev/shm"), "c16-%d" % ctx.shard))
    want = sz["cases"] // ctx.nshards
    wsub = max(5, sz["sub"] // ctx.nshards)
    nsub = 0
    funcs = [case_get, case_get, case_get, case_set, case_set, case_merge, case_diff, case_validate, case_set_delete_many, case_stdin_stream]
    i = 0
    while ctx.evaluations < want:
        f = funcs[i % len(funcs)]
        i += 1
        sub = nsub < wsub and (i % 7 == 0)
        before = ctx.counters.get("subprocess_cases", 0)
        f(ctx, rng, box, sub)
        if ctx.counters.get("subprocess_cases", 0) > before:
            nsub += 1
    ctx.sample({"note": "see counters per tool; every case is (tool, input text(s), argv) compared with the library answer"})


def replay(w):
    return {"violated": None, "case": w["case"], "note": "re-run the tool with the recorded inputs and argv"}


MANIFEST = {
    "level_text": ("Exploration: 6*10^3 (quick) to 2.5*10^5 (thorough) runs of the real console entry points (yaml-get, "
                   "yaml-set, yaml-merge, yaml-diff, yaml-validate) over generated inputs, with file and stdin delivery, "
                   "YAML and JSON, both notations, each compared with the library answer for the same inputs (stdout "
                   "lines, exit status, resulting file or output document); a sample re-run as real subprocesses."),
    "level_note": "Differential against the library: defects of the library itself are the subject of C01/C03-C06; yaml-paths' CLI is sampled in C07.",
    "technique": "runtime differential monitor at the console entry points (argv/stdin/stdout/exit status/file bytes) vs library answers",
}

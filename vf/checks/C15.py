"""C15 — evaluating any valid path on any document fails only with YAML Path errors.

Workload: random / hostile / deep documents x random paths of the C01 + C13
fragment (indexes and slice bounds swept over negative, in-range and
out-of-range values; invalid regular expressions; keyword parameters with
escaped quotes; collectors over scalar operands), each through
get_nodes(mustexist=True) and exists().  Monitor: escape monitor at the API
boundary.  Oracle: only YAMLPathException (and subclasses) may cross.
"""
import re

from vf.core import yp
from vf.core.yp import Processor, YAMLPath, YAMLPathException, LOG
from vf.gen import docs as gd
from vf.gen import paths as gp

PROPERTY = "C15"
LEVEL = "exploration"
RULE = ("random documents (regimes N/U/A, 1-40 nodes), the hostile fixed documents and depth-40 nestings x random "
        "paths of <=4 segments from the C01/C13 vocabulary (indexes/slices swept beyond both ends, invalid regexes, "
        "keyword parameters with escaped quotes, scalar collectors); a case = (document text, path text); it is "
        "non-trivial when the path parses and evaluation either returns >=1 node or raises; distinct by (doc, path)")
ASSUMPTIONS = ["paths that do not parse are outside the statement (C14 covers them)",
               "nesting is exercised to depth 40 for mixed documents and to depth 450 for pure sequences (the loader accepts about 490); cyclic alias graphs are out of scope"]
REACH = [("yamlpath/processor.py", "_get_nodes_by_path_segment,_get_nodes_by_key,_get_nodes_by_index,_get_nodes_by_anchor,_get_nodes_by_search,_get_nodes_by_traversal,_get_nodes_by_match_all_filtered,_get_nodes_by_match_all_unfiltered,_get_nodes_by_collector,_get_required_nodes", "Processor segment handlers"),
         ("yamlpath/common/keywordsearches.py", "search_matches,has_child,max,min,parent,distinct,unique,name", "KeywordSearches"),
         ("yamlpath/common/searches.py", "search_matches", "Searches.search_matches")]
SIZES = {"quick": 600000, "thorough": 6000000}
REQUIRED_COUNTERS = ["queries_with_forced_separator", "docs_with_python_literal_lookalikes", "returned", "yamlpath_error", "deep_sequence_docs", "optional_mode_queries", "docs_with_odd_keys", "docs_tagged_through_the_library"]

BAD_REGEX = ["(", "[", "*a", "a{2", "(?P<x", "+"]
ODD_KEY_DOCS = ["{'': 1, a: {'': {b: 2}}}", "!!set {'', a}", "{s: !!set {'', ' '}, t: 1}", "[{'': 1}, {'': 2}]", "{h: {'': {k: 1}, x: {k: 2}}}",
                "{' ': 1, '  ': {' ': 2}}", "{null: 1, true: 2, 1.5: 3, 2020-01-01: d, 7: e}", "{~: {~: x}}", "{'': [1, 2], b: ['']}",
                "{'': {'': {'': leaf}}}", "{? [1, 2] : seqkey, a: 1}", "{'': &E e, b: *E}"]

# plain Strings that spell OTHER Python literals (imaginary numbers, bytes, sets, ellipsis, tuples, long ints): values and terms
LITERAL_DOCS = ["{a: [3j, 5, x, 1.5], b: 2J, c: 15e3j, d: 7}", "[{v: 3j, w: 1}, {v: 1, w: 2j}, {v: x}]", "{k: [b'ab', 1, 2], m: ..., s: '{1, 2}', t: '(1, 2)'}",
                "[1j, 2, 3]", "{a: 0b11, b: 0o17, c: 1e400, d: -1e400, e: 1_000_000, f: [0b1, 2]}", "{l: [None, True, 1], n: None, t: True}",
                "{a: [.nan, 1, .inf], b: -.inf, c: .NaN}"]
# keys holding the OTHER notation's separator, queried with the separator forced through pathsep=
SEP_KEY_CASES = [("{'a/b': {c: 1, 'c/d': 2}, a: {b: {c: 3}}, 'x.y': {z: 4, 'z.w': 5}, x: {y: {z: 6}}}",
                  ["a/b.c", "a/b.c/d", "a/b/c.d", "/x.y/z", "/x.y/z.w", "/x/y.z", "a/b", "/x.y", "a.b/c", "x.y/z", "*.c/d", "/*/z.w", "**.c/d", "a/b[.=1]", "/x.y[.>3]"]),
                 ("[{'k/1': [1, 2]}, {'k.2': {'m/n': x}}]", ["[0].k/1[1]", "/[1]/k.2/m/n", "[1].k\\.2.m/n", "/[0]/k\\/1/[0]", "*.k/1", "/*/k.2"])]
SEEDS = [
    ("[a]", "[-2]"), ("[a]", "/-2"), ("[a, b]", "[1:9]"), ("{a: [x]}", "a[0:0]"),
    ("[{a: 1}, null]", "[.=x]"), ("[a, {b: 1}]", "[unique()]"), ("[a, b]", "[.=~/(/]"),
    ("{1: a}", "[0:5]"), ("{a: 1}", "[has_child(\\')]"), ("[a, [], b]", "[1]"),
    ("[1, a]", "[max()]"), ("[{a: 1}, {a: x}]", "[min(a)]"), ("{a: {b: 1}, c: {b: x}}", "[max(b)]"),
    ("!!set {a, b}", "[0]"), ("!!set {a, b}", "[a:b]"), ("{a: 1}", "a.b.c"), ("[1, 2]", "[parent(5)]"),
    ("{a: [1, 2]}", "a[distinct()]"), ("{a: [[1], [1]]}", "a[unique()]"), ("[null, null]", "[max()]"),
    ("{a: null}", "a[.^x]"), ("[]", "[.=1]"), ("{}", "**"), ("{}", "*"), ("[[]]", "**.a"),
    ('[[{b: 1, 0: [{id: "5"}, null]}], {}]', "/[-2:4][-6:5][0][distinct(id)]"),
    ("{a: {k: 1}}", "a[has_child(,)]"), ("{l: [a, b]}", "l[-5]"), ("{l: []}", "l[-1]"), ("{l: [a, b]}", "l.-5"),
    ('{a: ["{[1]: 2}", b]}', "a[.=x]"), ("{a: [x, b]}", "a[.={[1]:2}]"), ("{a: ['{[]}', '(1,)', '[1, 2']}", "a[.>1]"),
    ('{a: ["' + "1" + "+1" * 5000 + '", b]}', "a[.=x]"), ("[a, b]", "[.=" + "1" + "+1" * 5000 + "]"),
]


def where(exc):
    tb = exc.__traceback__
    w = "?"
    while tb is not None:
        fn = tb.tb_frame.f_code.co_filename
        if "/yamlpath/" in fn:
            w = "%s:%s" % (fn.rsplit("/", 1)[-1], tb.tb_frame.f_code.co_name)
        tb = tb.tb_next
    return w


def evaluate(ctx, doc_text, data, path_text):
    try:
        if not YAMLPath(path_text).escaped and path_text.strip():
            pass
    except YAMLPathException:
        ctx.count("unparsable_path")
        return
    except Exception:
        ctx.count("parser_crash_left_to_C14")
        return
    nontriv = False
    ops = ("get", "exists")
    if len(doc_text) < 400 and (ctx.evaluations % 5 == 0):
        ops = ("get", "exists", "optional")        # the optional-match form of the query, on a scratch copy (it may create nodes)
    if ctx.evaluations % 7 == 0:
        # the query handed over as a YAMLPath OBJECT together with the documented pathsep= argument (either separator,
        # whichever notation the text was written in)
        ops = ops + ("forced-dot", "forced-slash")
    for op in ops:
        ctx.evaluated()
        try:
            p = Processor(LOG, data)
            if op == "optional":
                import copy
                ctx.count("optional_mode_queries")
                for _ in Processor(LOG, copy.deepcopy(data)).get_nodes(path_text, mustexist=False, default_value="v"):
                    pass
            elif op.startswith("forced"):
                from yamlpath.enums import PathSeparators
                ctx.count("queries_with_forced_separator")
                for _ in p.get_nodes(YAMLPath(path_text), mustexist=True,
                                     pathsep=PathSeparators.DOT if op == "forced-dot" else PathSeparators.FSLASH):
                    pass
            elif op == "get":
                n = 0
                for _ in p.get_nodes(path_text, mustexist=True):
                    n += 1
                ctx.count("returned")
                nontriv = nontriv or n > 0
            else:
                p.exists(path_text)
        except YAMLPathException:
            ctx.count("yamlpath_error")
            nontriv = True
        except RecursionError as e:
            ctx.violation("escape/RecursionError@" + where(e), {
                "case": {"doc": doc_text, "path": path_text, "op": op}, "summary": "RecursionError"})
            nontriv = True
        except Exception as e:
            ctx.violation("escape/%s@%s" % (type(e).__name__, where(e)), {
                "case": {"doc": doc_text, "path": path_text, "op": op},
                "summary": "%s: %s" % (type(e).__name__, str(e)[:200])})
            nontriv = True
    if nontriv:
        ctx.mark_nontrivial([doc_text, path_text])


def operand_selects_scalars(data, segs):
    if any(s[0] in ("COLL", "KW") for s in segs):
        return False
    try:
        txt = gp.render(segs, ".")
        res = list(Processor(LOG, data).get_nodes(txt, mustexist=True))
    except Exception:
        return False
    from vf.checks.C01 import flatten
    flat = []
    for r in res:
        flatten(r, flat)
    return all(not isinstance(n, (dict, list, set, yp.CommentedSet)) for n in flat)


def hostile_seg(rng, vocab):
    x = rng.random()
    n = vocab["maxlen"]
    if x < 0.25:
        return ("INDEX", rng.randrange(-n - 2, n + 3))
    if x < 0.5:
        return ("SLICE", rng.randrange(-n - 2, n + 3), rng.randrange(-n - 2, n + 3))
    if x < 0.6:
        return ("SEARCH", rng.random() < 0.3, "=~", rng.choice([".", "a"]), rng.choice(BAD_REGEX))
    if x < 0.7:
        return ("KEY", str(rng.randrange(-n - 2, n + 3)))
    if x < 0.78:
        return ("KW", rng.random() < 0.3, rng.choice(["has_child", "max", "min", "unique", "distinct"]),
                [rng.choice(["\\'", '\\"', "a\\ b", "'a'", '"a b"', "a, b", "", ",", " ", "&", "&a"])])
    if x < 0.85:
        return ("HSLICE", rng.choice(["a", "0", "1"]), rng.choice(["b", "9", "z"]))
    return ("KW", rng.random() < 0.3, "parent", [str(rng.choice([0, 1, 2, 7, -1]))])


def run_shard(ctx):
    rng = ctx.rng
    total = SIZES[ctx.tier] // ctx.nshards
    if ctx.shard == 0:
        for d, p in SEEDS:
            evaluate(ctx, d, yp.load(d), p)
            ctx.sample({"doc": d, "path": p})
        for kind in ("map", "seq", "mix"):
            d = gd.deep_doc(40, kind)
            data = yp.load(d)
            for p in ["**", "**.a", "**[.=x]", "/**/a", "**[0]", "*.*.*", "**[.!=x]"]:
                evaluate(ctx, d, data, p)
        # sequences nested as deep as the loader itself accepts (about 490 levels): a trailing ** must still return
        for depth in (150, 300, 400, 450):
            d = "[" * depth + "1" + "]" * depth
            try:
                data = yp.load(d)
            except yp.LoadError:
                ctx.count("deep_sequence_rejected_by_loader")
                continue
            ctx.counters["deep_sequence_docs"] = ctx.counters.get("deep_sequence_docs", 0) + 1
            for p in ["**", "/**", "**[.=1]", "**[0]"]:
                evaluate(ctx, "[x%d 1 ]x%d" % (depth, depth), data, p)
    if ctx.shard == 1 % ctx.nshards:
        for d, paths in SEP_KEY_CASES:
            data = yp.load(d)
            for ptxt in paths:
                ctx.evaluations -= ctx.evaluations % 7        # (these are always also asked with a forced separator)
                evaluate(ctx, d, data, ptxt)
    done = 0
    while done < total:
        x = rng.random()
        if x < 0.15:
            text = rng.choice(gd.HOSTILE)
        elif x < 0.17:
            text = rng.choice(LITERAL_DOCS)
            ctx.counters["docs_with_python_literal_lookalikes"] = ctx.counters.get("docs_with_python_literal_lookalikes", 0) + 1
        elif x < 0.2:
            text = rng.choice(ODD_KEY_DOCS)          # empty-string keys and members, blank keys, keys of every scalar type
            ctx.counters["docs_with_odd_keys"] = ctx.counters.get("docs_with_odd_keys", 0) + 1
        else:
            text, _ = gd.gen_doc(rng)
        try:
            data = yp.load(text)
        except yp.LoadError:
            ctx.count("doc_rejected_by_loader")
            continue
        vocab = gp.doc_vocab(data)          # (taken before any tagging: the harness itself must not depend on tagged nodes)
        if rng.random() < 0.04:
            # a document whose scalars were tagged through the library (Processor.tag_nodes / yaml-set --tag)
            tpath = rng.choice(["**", "/*", "*[.=~/./]", "**[.>0]"])
            try:
                Processor(LOG, data).tag_nodes(tpath, "!vf")
                text = text + "  # then tag_nodes(%r, '!vf')" % tpath
                ctx.counters["docs_tagged_through_the_library"] = ctx.counters.get("docs_tagged_through_the_library", 0) + 1
            except YAMLPathException:
                pass
            except Exception as e:
                # (tagging is an edit, not a query: how it fails - e.g. on a set member - is outside this property)
                ctx.count("tag_nodes_raised/" + type(e).__name__)
                continue
        pg = gp.PathGen(rng, vocab, keywords=True)
        for _ in range(rng.choice([4, 8, 12])):
            segs = pg.path()
            for i in range(len(segs)):
                if rng.random() < 0.25:
                    segs[i] = hostile_seg(rng, vocab)
            if rng.random() < 0.1:
                # collectors: operands must select scalars only (the property's own limit)
                ops = [segs[:2]] + [pg.path(rng.choice([1, 2])) for _ in range(rng.choice([1, 1, 2]))]
                if not all(operand_selects_scalars(data, o) for o in ops):
                    ctx.count("collector_with_nonscalar_operand_skipped")
                    continue
                segs = [("COLL", "", ops[0])] + [("COLL", rng.choice(["+", "-", "&"]), o) for o in ops[1:]]
                if rng.random() < 0.3:
                    segs.append(rng.choice([("INDEX", 0), ("INDEX", -1), ("INDEX", 5), ("SEARCH", False, "=", ".", "a")]))
                ctx.count("collector_cases")
            try:
                ptxt = gp.render(segs, rng.choice([".", "/"]))
            except ValueError:
                continue
            evaluate(ctx, text, data, ptxt)
            done += 2
            if done < 6:
                ctx.sample({"doc": text, "path": ptxt})


def replay(w):
    c = w["case"]
    data = yp.load(c["doc"])
    try:
        p = Processor(LOG, data)
        if c["op"] == "get":
            r = [repr(x.node)[:60] for x in p.get_nodes(c["path"], mustexist=True)]
        else:
            r = p.exists(c["path"])
        return {"violated": False, "result": r}
    except YAMLPathException as e:
        return {"violated": False, "result": "YAMLPathException: %s" % e}
    except Exception as e:
        return {"violated": True, "result": "%s: %s" % (type(e).__name__, e)}


MANIFEST = {
    "level_text": ("Exploration: 10^5 (quick) to 4*10^6 (thorough) monitored queries of generated (document, path) pairs "
                   "biased to out-of-range indexes, slices past either end, nulls and mixed types in lists, invalid "
                   "regexes, keyword searches over unhashable members and depth-40 traversals; the escape monitor at "
                   "the API boundary is the oracle (only the YAMLPathException family may cross)."),
    "level_note": ("Decides only the generated executions; documents are at most depth 40 and acyclic; the path generator's "
                   "vocabulary is the C01/C13 fragment plus scalar collectors."),
    "technique": "runtime escape monitor at the Processor API boundary over generated hostile (document, path) workloads",
}

"""C03 — a set changes exactly the matched nodes (and their aliases), nothing else.

Twin-free location oracle: target locations come from the reference evaluator
on the pre-state, alias sites from object identity of anchored nodes, the
expected post-image from vf.model.edits; the monitor compares the whole
document image (keys, values, kinds, order, anchors) after every step of
histories mixing set / create / delete, and dumps + reloads with yamlpath's
strict loader after every step.
"""
from vf.core import yp
from vf.gen import docs as gd
from vf.gen import paths as gp
from vf.checks import editsteps as ES
from vf.core.yp import Processor, LOG, YAMLPathException
from vf.model import edits as E

PROPERTY = "C03"
LEVEL = "exploration"
RULE = ("edit histories of 1-6 steps (set existing 70%, create 15%, delete 15%) on random documents in regimes N "
        "(repeated equal plain scalars, values spelled like keys), A (anchored scalars aliased under keys and in "
        "sequences) and U, plus the hostile fixed documents; set paths from the C01 fragment matching >=1 scalar "
        "(half of them straight paths to a randomly chosen scalar); new values of every scalar type. A step is "
        "non-trivial when it executed against >=1 matched scalar; distinct by (document, path, value, step index)")
ASSUMPTIONS = ["value formatting (quotes, folding) is not compared", "set members as direct targets and key renames via name() are outside the fragment",
               "CPython object sharing of small ints / short strings is what regime N relies on"]
REACH = [("yamlpath/processor.py", "_apply_change", "Processor._apply_change"),
         ("yamlpath/processor.py", "_update_node,recurse", "Processor._update_node / recurse"),
         ("yamlpath/common/nodes.py", "make_new_node,make_float_node", "Nodes.make_new_node")]
SIZES = {"quick": 50000, "thorough": 800000}
REQUIRED_COUNTERS = ["tagged_set_steps", "set_steps", "reload_checked", "set_steps_with_aliases", "set_collector_steps", "set_inherited_key_steps"]

SEEDS = [
    ("[1, 1, 2]", [("INDEX", 1)], 9), ("{a: b, b: x}", [("KEY", "a")], "z"),
    ("{a: 1, s: !!set {x, y}}", [("KEY", "a")], 5), ("{a: &A 1, b: *A, c: [*A, 1]}", [("KEY", "a")], 5),
    ("{a: &A x, b: *A}", [("KEY", "b")], 7), ("[a, b, c]", [("INDEX", -1)], "z"),
    ("{a: [x, x, x]}", [("KEY", "a"), ("INDEX", 0)], "y"), ("{a: 1.5}", [("KEY", "a")], 2.0),
    ("{k: v, v: k}", [("KEY", "k")], "v"), ("[true, true]", [("INDEX", 0)], False),
    ("[null, null]", [("INDEX", 0)], 1), ("{a: {b: 1, c: 1}}", [("KEY", "a"), ("KEY", "b")], 2),
    ("{a: 1.5}", [("KEY", "a")], 100.0), ("{a: &A1 true, b: *A1}", [("KEY", "a")], "zz"),
    ("{a: [&A x, y], b: [*A, x]}", [("KEY", "a"), ("INDEX", 0)], 7),
    ("[{a: &A2 'true'}, [{a: ab, b: *A2}]]", [("SEARCH", True, "=~", "b", "1"), ("KEY", "a")], 100.0),
    ("{l: [a, b, c, d, e]}", [("KEY", "l"), ("SLICE", 1, 3)], "Z"), ("{b: &b {x: 1}, d: {<<: *b, y: 2}}", [("KEY", "d"), ("KEY", "x")], "Z"),
    ("{d: &D {r: 2.5, n: x}, s: {<<: *D, p: 8080}}", [("KEY", "d"), ("KEY", "r")], 0.75),
    ("{d: &D {r: 'q', n: x}, s: {<<: *D, p: 8080}, t: [{<<: *D}]}", [("KEY", "d"), ("KEY", "r")], "zz"),
    ("{d: &D {r: 2.5, n: x}, s: {<<: *D, p: 8080}}", [("KEY", "s"), ("KEY", "p")], 1),
]


def path_to_random_scalar(rng, data):
    segs, node = [], data
    for _ in range(8):
        if isinstance(node, dict) and len(node):
            k = rng.choice([kk for kk, _v in yp.own_items(node)] or list(node.keys()))
            if not isinstance(k, str) or not str(k).replace("_", "").isalnum() or str(k).lstrip("-").isdigit():
                return None
            segs.append(("KEY", str(k)))
            node = node[k]
        elif isinstance(node, list) and not yp.is_set(node) and len(node):
            i = rng.randrange(len(node))
            segs.append(rng.choice([("INDEX", i), ("INDEX", i - len(node)), ("KEY", str(i))]))
            node = node[i]
        else:
            break
    if isinstance(node, (dict, list)) or yp.is_set(node) or not segs:
        return None
    return segs


def scalar_lists(data):
    """(segs, loc, list) for lists of >= 3 un-anchored scalars reachable by plain keys / indexes."""
    out = []

    def walk(n, segs, loc):
        if isinstance(n, dict):
            for i, (k, v) in enumerate(yp.own_items(n)):
                if isinstance(k, str) and k.isalnum() and not k.lstrip("-").isdigit():
                    walk(v, segs + [("KEY", k)], loc + (i,))
        elif isinstance(n, list) and not yp.is_set(n):
            if len(n) >= 3 and all(not yp.is_container(e) and e is not None and yp.anchor_of(e) is None for e in n) and segs:
                out.append((segs, loc, n))
            for i, e in enumerate(n):
                walk(e, segs + [("INDEX", i)], loc + (i,))
    walk(data, [], ())
    return out


def step_set_collector(ctx, rng, data, text, value, hist):
    """A set through a Collector: (P[i:j]) or (P[i])+(P[k]) over a list of scalars; exactly those elements change."""
    from vf.core.yp import Processor, LOG, YAMLPathException
    from vf.model import edits as E
    cands = scalar_lists(data)
    if not cands or value is None:
        return False
    segs, loc, lst = rng.choice(cands)
    base = gp.render(segs, "/")
    n = len(lst)
    if rng.random() < 0.5:
        i = rng.randrange(0, n - 1)
        j = rng.randrange(i + 2, n + 1)          # a genuine slice (at least two elements)
        path, idxs = "(%s[%d:%d])" % (base, i, j), list(range(i, j))
    else:
        idxs = rng.sample(range(n), 2)
        path = "+".join("(%s[%d])" % (base, i) for i in idxs)
    kw = {}
    if rng.random() < 0.3:
        # an explicit value format must reach every member: the text 5, single-quoted, stays a string
        from yamlpath.enums import YAMLValueFormats
        value, kw = rng.choice(["5", "true", "1.5"]), {"value_format": YAMLValueFormats.SQUOTE}
        ctx.count("set_collector_steps_with_format")
    img0 = E.image(data)
    expected = E.apply_set(img0, [loc + (i,) for i in sorted(set(idxs))], value)
    case = {"doc": text, "path": path, "segs": None, "value": repr(value), "history": list(hist), "state_before": yp.dump(data) if hist else None,
            "value_format": "squote" if kw else None}
    ctx.evaluations += 1
    ctx.count("set_steps")
    ctx.count("set_collector_steps")
    ctx.mark_nontrivial([text, path, repr(value), len(hist)])
    try:
        Processor(LOG, data).set_value(path, value, mustexist=True, **kw)
    except YAMLPathException as e:
        ctx.violation("set/collector/refused/%s" % type(e).__name__, {"case": case, "summary": str(e)[:150]})
        return True
    except Exception as e:
        ctx.violation("set/collector/crash/%s@%s" % (type(e).__name__, ES.where(e)), {"case": case, "summary": repr(e)[:150]})
        return True
    actual = E.image(data)
    if actual != expected:
        ctx.violation("set/collector/" + ES.classify_set_diff(None, img0, expected, actual, [loc + (i,) for i in idxs], value), {
            "case": case, "summary": "differs from model at %r" % (E.diff(expected, actual)[:3],)})
    return True


def run_history(ctx, rng, text, data, nsteps):
    hist = []
    for step in range(nsteps):
        vocab = gp.doc_vocab(data)
        x = rng.random()
        value = rng.choice(ES.VALUES + vocab["terms"][:4] + vocab["keys"][:3])
        if isinstance(value, str) and value and (value[0] in "&*!|>%@`#{[-?:," or ": " in value):
            value = "zz"
        if isinstance(value, str):
            from vf.model.cmp import py_retype
            if not isinstance(py_retype(value), str) or value.lower() in ("null", "~", "yes", "no", "on", "off"):
                value = "zz"      # a str spelled like another type is re-typed by set_value: not judged here
        done = False
        if x < 0.06:
            if step_set_collector(ctx, rng, data, text, value, hist):
                hist.append(["set-through-collector", repr(value)])
                done = True
        elif x < 0.7:
            for _ in range(6):
                segs = path_to_random_scalar(rng, data) if rng.random() < 0.5 else None
                if segs is None:
                    segs = gp.PathGen(rng, vocab, hslice=False).path()
                if ES.step_set(ctx, data, text, segs, value, "set", hist):
                    hist.append(["set", gp.render(segs, "."), repr(value)])
                    done = True
                    break
        elif x < 0.85:
            if ES.step_create(ctx, data, text, rng, value, "create", hist, rng.choice(["set", "get"])):
                hist.append(["create", repr(value)])
                done = True
        else:
            for _ in range(4):
                segs = gp.PathGen(rng, vocab, hslice=False).path()
                if ES.step_delete(ctx, data, text, segs, "delete", hist):
                    hist.append(["delete", gp.render(segs, ".")])
                    done = True
                    break
        if data is None or not isinstance(data, (dict, list)):
            break
        if ctx.violations and len(hist) and any(k for k in ctx.violations):
            # after a recorded violation the live document no longer matches the model premise of
            # later steps in a useful way: stop this history
            if getattr(ctx, "_viol_count", 0) != sum(v["count"] for v in ctx.violations.values()):
                ctx._viol_count = sum(v["count"] for v in ctx.violations.values())
                break
    return hist


def tagged_set_case(ctx, rng, text, data):
    """A set that also applies a YAML tag (`set_value(..., tag=)`, yaml-set --tag), for new values of every scalar type:
    the matched node holds the tagged value, nothing else changes, and the document still serializes and reloads."""
    segs = path_to_random_scalar(rng, data)
    if segs is None or any(t == "KEY" and k.isdigit() for t, k in segs):
        return
    value = rng.choice([5, -3, 1.5, True, False, "txt", "x y", 0, "7"])
    vtext = {True: "true", False: "false"}.get(value, str(value)) if isinstance(value, bool) else str(value)
    ptext = gp.render(segs, rng.choice([".", "/"]))
    # location of the target among own items
    loc, node = [], data
    for t, k in segs:
        if isinstance(node, dict):
            keys = [kk for kk, _v in yp.own_items(node)]
            if k not in keys:
                return
            loc.append(keys.index(k))
            node = node[k]
        else:
            i = int(k)
            loc.append(i if i >= 0 else len(node) + i)
            node = node[i]
    if yp.anchor_of(node) is not None:
        return
    case = {"doc": text, "path": ptext, "value": repr(value), "tag": "!vf", "op": "set-tagged"}
    before = E.put(E.image(data), loc, E.value_image("X"))
    ctx.evaluations += 1
    ctx.counters["tagged_set_steps"] = ctx.counters.get("tagged_set_steps", 0) + 1
    ctx.mark_nontrivial([text, ptext, repr(value), "tagged"])
    try:
        Processor(LOG, data).set_value(ptext, value, mustexist=True, tag="!vf")
    except YAMLPathException:
        ctx.count("tagged_set_refused")
        return
    except Exception as e:
        ctx.violation("set-tagged/crash/%s" % type(e).__name__, {"case": case, "summary": repr(e)[:150]})
        return
    try:
        out = yp.dump(data)
    except Exception as e:
        ctx.violation("set-tagged/dump-raises/%s" % type(e).__name__, {"case": case, "summary": "the edited document cannot be written: %r" % (e,)})
        return
    try:
        back = yp.load(out)
    except yp.LoadError:
        ctx.violation("set-tagged/does-not-reload", {"case": case, "summary": out[:200]})
        return
    for name, doc in (("live", data), ("reloaded", back)):
        img = E.image(doc)
        got = E.get(img, loc)
        if got.get("v") != ["tagged", "!vf", ("str", vtext)]:
            ctx.violation("set-tagged/value/%s" % name, {"case": case, "summary": "the node holds %r ; expected !vf %s" % (got.get("v"), vtext)})
            return
        frame = E.put(img, loc, E.value_image("X"))
        # (the reloaded copy is compared without anchors: ruamel.yaml does not write back the anchor of a container that
        # nothing refers to - the known finding filed under C19 - which is no doing of this set)
        if (frame != before) if name == "live" else (E.strip_anchors(frame) != E.strip_anchors(before)):
            ctx.violation("set-tagged/frame/%s" % name, {"case": case, "summary": "%r" % (E.diff(before, frame)[:3],)})
            return


def run_shard(ctx):
    rng = ctx.rng
    if ctx.shard == 0:
        for d, segs, v in SEEDS:
            ES.step_set(ctx, yp.load(d), d, segs, v, "set", [])
            ctx.sample({"doc": d, "path": gp.render(segs, "."), "value": repr(v)})
    want = SIZES[ctx.tier] // ctx.nshards
    n = 0
    while ctx.counters.get("set_steps", 0) + ctx.counters.get("create_steps", 0) + ctx.counters.get("delete_steps", 0) < want:
        x = rng.random()
        if x < 0.1:
            text = rng.choice(gd.HOSTILE)
        elif x < 0.25:
            text = gd.gen_merge_doc(rng)          # `<<` merge keys: inherited keys are not the inheritor's own
            ctx.count("docs_with_merge_keys")
        else:
            text, _ = gd.gen_doc(rng, rng.choice(["N", "N", "A", "A", "U"]))
        try:
            data = yp.load(text)
        except yp.LoadError:
            continue
        if not isinstance(data, (dict, list)) or yp.is_set(data):
            continue
        if "<<" in text:
            yp.to_block(data)
        if not ES.roundtrips(data):
            ctx.count("doc_does_not_roundtrip_unedited_skipped")
            continue
        if rng.random() < 0.05:
            tagged_set_case(ctx, rng, text, data)
            continue
        hist = run_history(ctx, rng, text, data, rng.choice([1, 1, 2, 3, 4, 6]))
        n += 1
        if n <= 2 and hist:
            ctx.sample({"doc": text, "history": hist})


def replay(w):
    c = w["case"]
    data = yp.load(c["doc"])

    class _Ctx:
        def __init__(self):
            self.v, self.evaluations, self.counters = [], 0, {}

        def count(self, *a):
            pass

        def mark_nontrivial(self, *a):
            pass

        def violation(self, m, w):
            self.v.append((m, w["summary"]))
    cx = _Ctx()
    if c.get("history"):
        if not c.get("state_before"):
            return {"violated": None, "note": "history witness without a recorded pre-state", "history": c["history"]}
        data = yp.load(c["state_before"])
        c = dict(c, doc=c["state_before"])
    import ast
    segs = [tuple(s) for s in c["segs"]]
    if "value" in c:
        ES.step_set(cx, data, c["doc"], segs, ast.literal_eval(c["value"]))
    else:
        ES.step_delete(cx, data, c["doc"], segs)
    return {"violated": bool(cx.v), "found": cx.v, "after": yp.dump(data)}


MANIFEST = {
    "level_text": ("Exploration: 10^4 (quick) to 4*10^5 (thorough) monitored edit steps in histories of 1-6 steps; after "
                   "every step the whole document image (keys, values, kinds, order, anchors at every location) is "
                   "compared with a plain-data model driven by target locations from the independent reference "
                   "evaluator plus identity-derived alias sites, and the document is dumped and strictly reloaded."),
    "level_note": ("Targets come from my reference evaluator (cases it does not decide are skipped and counted); values are "
                   "typed Python scalars; only CPython 3.12's object sharing is exercised."),
    "technique": "runtime frame monitor: whole-document image before/after each edit vs plain-data model; dump/reload round-trip",
}

"""C09 — queries never modify the document; creation adds exactly the missing path.

Purity monitor: structure+identity fingerprint of the whole document before
and after get_nodes(mustexist=True), exists() and get_nodes(mustexist=False)
on a path that already exists, for every path kind including collectors with
+, - and &.  Creation: straight key/index paths with an existing prefix and a
missing tail, through set_value() and through get_nodes(default_value=...),
compared with a plain-data model (padding count exact, padding values free).
"""
from vf.core import yp
from vf.core.yp import Processor, YAMLPathException, LOG
from vf.gen import docs as gd
from vf.gen import paths as gp
from vf.model import pathsem as PS
from vf.checks import editsteps as ES
from yamlpath.exceptions import UnmatchedYAMLPathException

PROPERTY = "C09"
LEVEL = "exploration"
RULE = ("purity: random documents (N/U/A, hostile fixed ones, hashes sharing key/value pairs) x random paths of the "
        "C01/C13 fragment and collector expressions (operands combined with + - &), read through get_nodes(required), "
        "exists() and, when the path already exists, get_nodes(optional); non-trivial = the read returned >=1 node. "
        "creation: random documents x straight key/index paths with an existing prefix (length 0-3) and a missing "
        "tail (1-3 segments: new keys, bare-int keys, indexes len / len+1 / len+3), via set_value and via "
        "get_nodes(default_value); non-trivial = the creation executed. Distinct by (document, path, mode/value)")
ASSUMPTIONS = ["a fingerprint covers container identity, ordered children, scalar kind/value, anchors and merge lists",
               "a null-valued prefix node and negative out-of-range indexes are outside 'straight path with a missing tail'",
               "padding *values* are not judged, padding *count* is"]
REACH = [("yamlpath/processor.py", "_collector_addition,_collector_subtraction,_collector_intersection,_get_nodes_by_collector", "collector addition/subtraction/intersection"),
         ("yamlpath/processor.py", "_get_optional_nodes", "Processor._get_optional_nodes"),
         ("yamlpath/common/nodes.py", "wrap_type,build_next_node,append_list_element", "wrap_type / build_next_node / append_list_element")]
SIZES = {"quick": dict(reads=120000, creates=15000), "thorough": dict(reads=3000000, creates=300000)}
REQUIRED_COUNTERS = ["same_hash_collected_twice", "purity_checked", "collector_reads", "create_steps", "optional_existing_reads", "null_sibling_cases",
                     "merge_source_creation_cases"]

SEEDS = [
    ("{h: {x: 1, y: 2}, g: {x: 1}}", "(/h)-(/g/x)"), ("{h: {x: 1, y: 2}, g: {x: 1}}", "(h)-(g)"),
    ("{a: [1, 2, 3], b: [2, 3]}", "(a.*)-(b.*)"), ("{a: [1, 2, 3], b: [2, 3]}", "(a.*)&(b.*)"),
    ("{a: [1, 2, 3], b: [2, 3]}", "(a.*)+(b.*)"), ("[{a: 1, b: 2}, {a: 1}]", "([0])-([1])"),
    ("{l: [{n: 1, v: x}, {n: 2, v: y}]}", "(l[n=1])-(l[n=2].v)"),
    ("{web: {port: 80, tier: front}, db: {port: 5432, tier: back}, retired: {web: 2019, port: 80}}", "(web)+(db)-(retired.*)"),
]


def read_all(data, path, mode):
    p = Processor(LOG, data)
    if mode == "exists":
        return 1 if p.exists(path) else 0
    return len(list(p.get_nodes(path, mustexist=(mode == "required"))))


def purity(ctx, doc_text, data, path, modes, kind):
    """Returns the (possibly reloaded) document."""
    for mode in modes:
        fp0 = yp.fingerprint(data)
        ctx.evaluations += 1
        n = None
        try:
            n = read_all(data, path, mode)
        except YAMLPathException:
            ctx.count("read_yamlpath_error")
        except Exception as e:
            ctx.count("crash_handed_to_C15/" + type(e).__name__)
        ctx.counters["purity_checked"] = ctx.counters.get("purity_checked", 0) + 1
        if n:
            ctx.mark_nontrivial([doc_text, path, mode])
        if yp.fingerprint(data) != fp0:
            after = yp.dump(data)
            ctx.violation("read-mutates/%s/%s" % (kind, mode), {
                "case": {"doc": doc_text, "path": path, "mode": mode},
                "summary": "document after the read: %r" % after[:200]})
            data = yp.load(doc_text)
    return data


def gen_collector(rng, vocab, pg):
    ops = []
    for _ in range(rng.choice([2, 2, 3])):
        x = rng.random()
        if x < 0.4:
            segs = [("KEY", rng.choice(vocab["keys"] or ["a"]))]
            if rng.random() < 0.4:
                segs.append(rng.choice([("ALL",), ("KEY", rng.choice(vocab["keys"] or ["a"])), ("INDEX", 0)]))
        else:
            segs = pg.path(rng.choice([1, 2]))
        ops.append(segs)
    segs = [("COLL", "", ops[0])] + [("COLL", rng.choice(["+", "-", "&"]), o) for o in ops[1:]]
    if rng.random() < 0.2:
        segs.append(rng.choice([("INDEX", 0), ("KEY", rng.choice(vocab["keys"] or ["a"]))]))
    return segs


def shared_hash_doc(rng):
    """Hashes that share key/value pairs with each other (the hostile shape for subtraction)."""
    ks = ["x", "y", "z", "w"]
    def h():
        return "{" + ", ".join("%s: %s" % (k, rng.choice(["1", "2", "a"])) for k in rng.sample(ks, rng.randrange(1, 4))) + "}"
    if rng.random() < 0.3:
        # the same Hash reachable under two names (anchor + alias): a Collector then gathers ONE object twice
        return "{h: &H %s, g: %s, l: [%s, %s], s: %s, h2: *H}" % (h(), h(), h(), h(), rng.choice(["1", "a", "[1, 2]"]))
    return "{h: %s, g: %s, l: [%s, %s], s: %s}" % (h(), h(), h(), h(), rng.choice(["1", "a", "[1, 2]"]))


def null_sibling_case(ctx, rng):
    """An optional-match query through a wildcard / search segment, on a path that exists for one sibling while another
    sibling is null (`worker: ~`): the null one must be left alone - only straight key/index paths create anything."""
    sibs = rng.sample(["web", "worker", "wdb", "cache"], rng.randrange(2, 5))
    body = ", ".join("%s: %s" % (k, rng.choice(["null", "~", "{port: 80, tls: 1}", "{port: 81}", "{port: 0}"])) for k in sibs)
    text = "{services: {%s}, other: null}" % body
    data = yp.load(text)
    if not any(isinstance(v, dict) for v in data["services"].values()) or all(v is not None for v in data["services"].values()):
        return      # (a sibling mapping without the key would be a branch whose tail is missing: creation there is by design)
    path = rng.choice(["/services/w*/port", "services[.^w].port", "/services/*/port", "services.**.port", "services[.=~/./].port",
                       "/services/*[port>0]/port"])
    ctx.count("null_sibling_cases")
    purity(ctx, text, data, path, ["optional", "required", "exists"], "plain")


def merge_source_creation_case(ctx, rng):
    """A path created in a mapping that others merge with `<<` exists in them too (by inheritance): an optional-match
    query of it through an inheritor is a query of an existing path - it returns the inherited node, changes nothing."""
    text = gd.gen_merge_doc(rng)
    try:
        data = yp.load(text)
    except yp.LoadError:
        return
    inh = [(k, v) for k, v in data.items() if isinstance(v, dict) and getattr(v, "merge", None)]
    if not inh:
        return
    k, v = rng.choice(inh)
    src = v.merge[0][1]
    sk = next((kk for kk, vv in data.items() if vv is src), None)
    if sk is None or "limits" in src or "limits" in v:
        return
    try:
        Processor(LOG, data).set_value("%s.limits.timeout" % sk, 30)
    except YAMLPathException:
        return
    ctx.count("merge_source_creation_cases")
    path = "%s.limits.timeout" % k
    fp0 = yp.fingerprint(data)
    ctx.evaluations += 1
    ctx.counters["purity_checked"] = ctx.counters.get("purity_checked", 0) + 1
    ctx.mark_nontrivial([text, path, "inherited-after-creation"])
    try:
        got = [r.node for r in Processor(LOG, data).get_nodes(path, mustexist=False, default_value=0)]
    except Exception as e:
        ctx.count("crash_handed_to_C15/" + type(e).__name__)
        return
    if yp.fingerprint(data) != fp0 or got != [30]:
        ctx.violation("read-mutates/inherited-created-path/optional", {
            "case": {"doc": text, "path": path, "mode": "optional", "after": "set_value('%s.limits.timeout', 30)" % sk},
            "summary": "query gave %r ; document after the read: %r" % (got, yp.dump(data)[:250])})


def colliding_hash_doc(rng):
    """Top-level hashes whose *names* are also the names of their members (x: {x: 1, y: 2}): subtraction drops
    operands by name and prunes pairs by value, so the bookkeeping between the two is exercised."""
    ks = ["x", "y", "z", "w"]
    names = rng.sample(ks + ["h", "g"], 4)

    def h():
        return "{" + ", ".join("%s: %s" % (k, rng.choice(["1", "2"])) for k in rng.sample(ks, rng.randrange(1, 4))) + "}"
    return "{" + ", ".join("%s: %s" % (n, h()) for n in names) + "}", names


def run_shard(ctx):
    rng = ctx.rng
    sz = SIZES[ctx.tier]
    if ctx.shard == 0:
        for d, p in SEEDS:
            purity(ctx, d, yp.load(d), p, ("required", "exists", "optional"), "collector")
            ctx.counters["collector_reads"] = ctx.counters.get("collector_reads", 0) + 1
            ctx.sample({"doc": d, "path": p})
    want = sz["reads"] // ctx.nshards
    while ctx.counters.get("purity_checked", 0) < want:
        x = rng.random()
        if x < 0.02:
            null_sibling_case(ctx, rng)
            merge_source_creation_case(ctx, rng)
            continue
        if x < 0.08:
            text = rng.choice(gd.HOSTILE)
        elif x < 0.25:
            text = shared_hash_doc(rng)
        elif x < 0.35:
            text, names = colliding_hash_doc(rng)
        elif x < 0.42:
            text, _ = gd.gen_doc(rng, "N", keys=gd.KEYS + ["-1", "-2", "'-1'", "10"])     # negative-integer keys
        else:
            text, _ = gd.gen_doc(rng)
        try:
            data = yp.load(text)
        except yp.LoadError:
            continue
        vocab = gp.doc_vocab(data)
        pg = gp.PathGen(rng, vocab, keywords=True)
        for _ in range(8):
            if 0.25 <= x < 0.35 and rng.random() < 0.7:
                a, b, c = rng.sample(names, 3)
                k = rng.choice(["x", "y", "z", "w"])
                segs = None
                path_override = rng.choice(["(%s)+(%s)-(%s.*)", "(%s)+(%s)-(%s)", "(%s)+(%s)-(%s.{k})", "(%s)+(%s)+(%s)-(%s.*)",
                                            "(%s)+(%s)&(%s)", "(*)-(%s.*)", "(%s)+(%s)-(%s.*)-(%s)"]).replace("{k}", k)
                ops3 = [a, b, c, rng.choice(names)]
                path_override = path_override % tuple(ops3[:path_override.count("%s")])
                kind = "collector"
                ctx.count("colliding_name_collectors")
            elif text.startswith("{h: ") and rng.random() < 0.5:
                a, b = rng.sample(["h", "g", "l[0]", "l[1]"], 2)
                k = rng.choice(["x", "y", "z", "w"])
                segs = None
                path_override = rng.choice(["(%s)-(%s.%s)", "(%s)-(%s)", "(%s)&(%s.%s)", "(%s.*)-(%s.%s)", "(%s)+(%s)-(%s)"])
                path_override = path_override % ((a, b, k)[:path_override.count("%s")])
                if rng.random() < 0.3:
                    # one Hash gathered more than once on the left (named twice, or through its alias), then pairs subtracted
                    twin = "h2" if "h2: *H" in text and rng.random() < 0.6 else "h"
                    path_override = rng.choice(["(h)+(%s)-(%s.%s)", "(/h)+(/%s)-(/%s/%s)", "(h)+(%s)+(h)-(%s.%s)", "(%s)+(h)-(%s.*)"])
                    path_override = path_override % ((twin, rng.choice(["g", "l[0]"]), k)[:path_override.count("%s")])
                    ctx.count("same_hash_collected_twice")
                kind = "collector"
            elif rng.random() < 0.35:
                path_override = None
                segs = gen_collector(rng, vocab, pg)
                kind = "collector"
            else:
                path_override = None
                segs = pg.path()
                kind = "plain"
            if path_override is not None:
                path = path_override
            else:
                try:
                    path = gp.render(segs, rng.choice([".", "/"]))
                except ValueError:
                    continue
            modes = ["required", "exists"]
            # optional-match only on a path that already exists
            fp_pre = yp.fingerprint(data)
            try:
                exists_now = Processor(LOG, data).exists(path)
            except Exception:
                exists_now = False
            if yp.fingerprint(data) != fp_pre:          # this probe is a read too
                ctx.violation("read-mutates/%s/exists" % kind, {
                    "case": {"doc": text, "path": path, "mode": "exists"},
                    "summary": "document after the read: %r" % yp.dump(data)[:200]})
                data = yp.load(text)
            opt_ok = False
            if kind == "collector":
                opt_ok = exists_now
            else:
                # whether the path "already exists" is decided by the reference evaluator, not by the
                # library's own exists(): a lookup that wrongly misses an existing node would otherwise
                # excuse the optional-match query that then *creates* it
                ev = PS.Evaluator(segs)
                try:
                    found = ev.run(data)
                    opt_ok = bool(found) and all(p.sure for p in found) and not ev.dead_branch
                except (PS.Documented, PS.Abstain):
                    opt_ok = False
                if opt_ok and not exists_now:
                    ctx.count("model_says_exists_library_says_not")
            if opt_ok:
                modes.append("optional")
                ctx.counters["optional_existing_reads"] = ctx.counters.get("optional_existing_reads", 0) + 1
            if kind == "collector":
                ctx.counters["collector_reads"] = ctx.counters.get("collector_reads", 0) + 1
            data = purity(ctx, text, data, path, modes, kind)
    # ---- creation ---------------------------------------------------------------------
    want = sz["creates"] // ctx.nshards
    n = 0
    tries = 0
    while ctx.counters.get("create_steps", 0) < want and tries < want * 20:
        tries += 1
        text = rng.choice(gd.HOSTILE) if rng.random() < 0.08 else gd.gen_doc(rng, rng.choice(["N", "U", "A"]))[0]
        if "<<" in text:
            continue
        try:
            data = yp.load(text)
        except yp.LoadError:
            continue
        if not isinstance(data, (dict, list)) or yp.is_set(data) or not ES.roundtrips(data):
            continue
        value = rng.choice(ES.VALUES)
        driver = rng.choice(["set", "get"])
        if ES.step_create(ctx, data, text, rng, value, "create", [], driver):
            n += 1
            if n <= 2:
                ctx.sample({"doc": text, "after_create": yp.dump(data)[:200], "value": repr(value), "driver": driver})


def replay(w):
    c = w["case"]
    data = yp.load(c["doc"])
    if "mode" in c:
        fp0 = yp.fingerprint(data)
        try:
            n = read_all(data, c["path"], c["mode"])
        except Exception as e:
            n = repr(e)
        return {"violated": yp.fingerprint(data) != fp0, "returned": n, "after": yp.dump(data)}
    return {"violated": None, "note": "creation witness: path %s value %s driver %s" % (c["path"], c["value"], c["driver"])}


MANIFEST = {
    "level_text": ("Exploration: a purity monitor (whole-document structure+identity fingerprint before/after) around "
                   "10^5 (quick) to 3*10^6 (thorough) reads of every path kind incl. collectors with + - &, in required, "
                   "exists and optional-on-existing modes; and 10^4-3*10^5 creations of straight missing tails compared "
                   "with a plain-data model (exact padding count, free padding values) plus re-resolution of the created path."),
    "level_note": ("'Path already exists' for the optional mode is decided by the reference evaluator (no dead branch) "
                   "for plain paths and by exists() for collectors."),
    "technique": "runtime purity monitor (fingerprint around reads) + plain-data creation model on generated workloads",
}

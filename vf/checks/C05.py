"""C05 — merging two documents yields the policy-defined result for every option mix.

Oracle: three-valued reference merge on plain data (vf.model.merge) written
from the policy enum docstrings; shapes the documentation does not mention
are unspecified for the *result* but still subject to the escape monitor:
merge_with may only raise MergeException / YAMLPathException.
"""
import itertools
import os
from types import SimpleNamespace

from vf.core import yp
from vf.core.yp import LOG, YAMLPathException
from vf.gen import docs as gd
from vf.model import merge as MM
from yamlpath.merger import Merger, MergerConfig
from yamlpath.merger.exceptions import MergeException

PROPERTY = "C05"
LEVEL = "exploration"
RULE = ("pairs (L, R) of maps / lists / Arrays-of-Hashes / sets / scalars / empty containers with deliberate type clashes "
        "at equal keys (R derived from L by random edits, or unrelated) x hash {deep,left,right} x array {all,left,right,"
        "unique} x aoh {all,deep,left,right,unique} x set {left,right,unique} policies (thorough: each pair under all 180 "
        "combinations; quick: a covering sample of 24), given as defaults in args, as [defaults] of an INI file, or "
        "overridden per path through rules= / keys= (top-level and nested paths; also a rule naming one of two equal "
        "children that sit under the same key in different parents, also with the two parents arriving as two "
        "right-hand documents merged in turn by one Merger). Non-trivial = the reference merge decides the case (result or "
        "documented error); distinct by (L, R, policy mix, delivery)")
ASSUMPTIONS = ["order of keys newly added by the right-hand document is not specified: maps are compared as mappings plus "
               "the relative order of the left-hand keys",
               "shapes the policy documentation does not mention (set<->list, hash into a root list, duplicates inside the "
               "right-hand list under unique, python-equal scalars of different type) are unspecified for the result",
               "merge_with deletes comments of the right-hand document and may share right-hand nodes: R is not judged"]
REACH = [("yamlpath/merger/merger.py", "_merge_dicts,_merge_lists,_merge_simple_lists,_merge_arrays_of_hashes,_merge_sets", "Merger._merge_*"),
         ("yamlpath/merger/merger.py", "_insert_dict,_insert_list,_insert_set,_insert_scalar,merge_with", "Merger._insert_* / merge_with"),
         ("yamlpath/merger/mergerconfig.py", "hash_merge_mode,array_merge_mode,aoh_merge_mode,set_merge_mode,aoh_merge_key,_prepare_user_rules", "MergerConfig modes")]
SIZES = {"quick": 200000, "thorough": 4000000}
REQUIRED_COUNTERS = ["cli_config_cases", "model_decided", "documented_error_cases", "rules_cases", "ini_cases", "twin_rule_cases", "nested_rule_cases", "sequence_cases", "anchored_rule_cases", "merge_key_lhs_cases"]
HASHES, ARRAYS, AOH, SETS = ["deep", "left", "right"], ["all", "left", "right", "unique"], \
    ["all", "deep", "left", "right", "unique"], ["left", "right", "unique"]
ALL_COMBOS = list(itertools.product(HASHES, ARRAYS, AOH, SETS))
SC = ["1", "2", "3", "x", "y", "z", "null", "'1'", "'2'", "'a b'", "1.5"]     # '1' / 1: equal as text, different as data
KEYS = ["a", "b", "c", "d"]


def gen_tree(rng, depth=0, want=None):
    x = rng.random()
    if want is None:
        want = "scalar" if depth >= 3 or (depth > 0 and x < 0.35) else rng.choice(
            ["map", "map", "seq", "aoh", "set", "seq"])
    if want == "scalar":
        return ("s", rng.choice(SC))
    n = rng.randrange(0, 4)
    if want == "map":
        return ("map", [(k, gen_tree(rng, depth + 1)) for k in rng.sample(KEYS, min(n, 4))])
    if want == "seq":
        return ("seq", [("s", rng.choice(SC[:9])) for _ in range(n)])
    if want == "aoh":
        recs = []
        for _ in range(max(1, n)):
            items = [("id", ("s", rng.choice("123")))]
            if rng.random() < 0.6:
                items.append(("name", ("s", rng.choice("pqr"))))
            if rng.random() < 0.5:
                items.append(("v", gen_tree(rng, depth + 2, rng.choice(["scalar", "scalar", "seq", "map"]))))
            recs.append(("map", items))
        if rng.random() < 0.06:
            # a list that mixes records with scalars (after a record: the list still opens like an Array-of-Hashes)
            recs.insert(rng.randrange(1, len(recs) + 1), ("s", rng.choice(SC[:9])))
        return ("seq", recs)
    return ("set", rng.sample(["p", "q", "r", "s"], rng.randrange(1, 4)))


def derive(rng, t, depth=0):
    """A right-hand document overlapping with t: same keys, some values changed / retyped / extended."""
    k = t[0]
    if k == "map":
        items = []
        for key, v in t[1]:
            x = rng.random()
            if x < 0.2:
                continue
            if x < 0.7:
                items.append((key, derive(rng, v, depth + 1)))
            else:
                items.append((key, gen_tree(rng, depth + 1)))
        for key in KEYS:
            if key not in [i[0] for i in items] and rng.random() < 0.2:
                items.append((key, gen_tree(rng, depth + 1)))
        rng.random() < 0.2 and rng.shuffle(items)
        return ("map", items)
    if k == "seq":
        if t[1] and t[1][0][0] == "map":
            recs = []
            for r in t[1]:
                if rng.random() < 0.6:
                    recs.append(derive(rng, r, depth + 1) if rng.random() < 0.6 else r)
            if rng.random() < 0.5:
                recs.append(gen_tree(rng, depth, "aoh")[1][0])
            # identity key first in every record
            recs = [("map", sorted(r[1], key=lambda kv: kv[0] != "id")) if r[0] == "map" else r for r in recs]
            return ("seq", recs)
        items = [e for e in t[1] if rng.random() < 0.6] + [("s", rng.choice(SC[:9])) for _ in range(rng.randrange(0, 3))]
        return ("seq", items) if rng.random() < 0.9 else gen_tree(rng, depth)
    if k == "set":
        return ("set", rng.sample(["p", "q", "r", "s", "t"], rng.randrange(1, 4))) if rng.random() < 0.9 else gen_tree(rng, depth)
    return ("s", rng.choice(SC)) if rng.random() < 0.8 else gen_tree(rng, depth)


def covering_sample(rng, n=24):
    out = []
    pools = [list(HASHES), list(ARRAYS), list(AOH), list(SETS)]
    for i in range(n):
        out.append(tuple(p[(i + j * 7 + rng.randrange(len(p))) % len(p)] if i >= 5 else p[i % len(p)] for j, p in enumerate(pools)))
    return out


def where(exc):
    tb = exc.__traceback__
    w = "?"
    while tb is not None:
        fn = tb.tb_frame.f_code.co_filename
        if "/yamlpath/" in fn:
            w = "%s:%s" % (fn.rsplit("/", 1)[-1], tb.tb_frame.f_code.co_name)
        tb = tb.tb_next
    return w


def first_diff(exp, got, path=""):
    if exp[0] != got[0]:
        return path, "%s-vs-%s" % (exp[0], got[0])
    if exp[0] == "s":
        return (path, "scalar") if repr(exp[1]) != repr(got[1]) else None
    if exp[0] == "set":
        return (path, "set") if sorted(map(repr, exp[1])) != sorted(map(repr, got[1])) else None
    if exp[0] == "map":
        ek = {repr(k): v for k, v in exp[1]}
        gk = {repr(k): v for k, v in got[1]}
        if set(ek) != set(gk):
            return path, "map-keys"
        for k in ek:
            d = first_diff(ek[k], gk[k], path + "/" + k.strip("'"))
            if d:
                return d
        return None
    if len(exp[1]) != len(got[1]):
        return path, "seq-length"
    for i, (a, b) in enumerate(zip(exp[1], got[1])):
        d = first_diff(a, b, path + "[%d]" % i)
        if d:
            return d
    return None


def rkind(p):
    if p[0] == "seq":
        return "aoh" if MM.is_aoh(p) else "list"
    return {"s": "scalar"}.get(p[0], p[0])


def stable_subset(text):
    """A subset of the four policy names, chosen by a stable hash of the case (replays choose the same one)."""
    import hashlib
    h = hashlib.sha256(text.encode()).digest()[0]
    return [k for i, k in enumerate(["hashes", "arrays", "aoh", "sets"]) if h >> i & 1]


def run_case(ctx, ltext, rtext, combo, delivery, rules=None, keys=None):
    try:
        Ld, Rd = yp.load(ltext), yp.load(rtext)
    except yp.LoadError:
        return
    if Ld is None or Rd is None:
        return
    cfg = dict(hashes=combo[0], arrays=combo[1], aoh=combo[2], sets=combo[3])
    case = {"lhs": ltext, "rhs": rtext, "policies": cfg, "delivery": delivery, "rules": rules, "keys": keys}
    Lp, Rp = MM.plain(Ld), MM.plain(Rd)
    model = MM.Model(cfg, rules, keys)
    try:
        exp = ("OK", model.root(Lp, Rp))
    except MM.Impossible as e:
        exp = ("ERR", str(e))
    except MM.Unspec as e:
        exp = ("UNSPEC", str(e))
    # ---- real ------------------------------------------------------------------------
    ini = None
    try:
        if delivery == "ini":
            ini = os.path.join(os.environ.get("VF_WORKDIR", "/dev/shm"), "vf-c05-%d.ini" % os.getpid())
            with open(ini, "w") as f:
                f.write("[defaults]\n" + "".join("%s = %s\n" % kv for kv in cfg.items()))
            mc = MergerConfig(LOG, SimpleNamespace(config=ini))
            ctx.counters["ini_cases"] = ctx.counters.get("ini_cases", 0) + 1
        elif delivery == "cli":
            # through the tool's own option handling: a subset of the four policies on the command line, the others in
            # the [defaults] section of a --config file
            from vf.mon import cli
            wd = os.path.join(os.environ.get("VF_WORKDIR", "/dev/shm"), "vf-c05cli-%d" % os.getpid())
            os.makedirs(wd, exist_ok=True)
            ini = os.path.join(wd, "m.ini")
            pick = stable_subset(ltext + rtext + repr(combo))
            flags = {"hashes": "-H", "arrays": "-A", "aoh": "-O", "sets": "-E"}
            with open(ini, "w") as f:
                f.write("[defaults]\n" + "".join("%s = %s\n" % kv for kv in cfg.items() if kv[0] not in pick))
            for n, t in (("l.yaml", ltext), ("r.yaml", rtext)):
                with open(os.path.join(wd, n), "w") as f:
                    f.write(t + "\n")
            argv = ["-S", "-D", "yaml", "-c", ini]
            for k in pick:
                argv += [flags[k], cfg[k]]
            case["argv"] = list(argv)
            r = cli.run("yaml_merge", argv + [os.path.join(wd, "l.yaml"), os.path.join(wd, "r.yaml")])
            ini = None
            ctx.evaluations += 1
            ctx.counters["cli_config_cases"] = ctx.counters.get("cli_config_cases", 0) + 1
            if r["exc"]:
                ctx.violation("crash/cli", {"case": case, "summary": r["exc"][:200]})
                return
            if r["code"] != 0:
                got = ("ERR", "exit %d: %s" % (r["code"], r["err"][:80]))
            else:
                try:
                    docs = yp.load_all(r["out"])
                except yp.LoadError:
                    ctx.violation("cli-output-does-not-load", {"case": case, "summary": r["out"][:200]})
                    return
                if len(docs) != 1:
                    ctx.violation("cli-document-count", {"case": case, "summary": r["out"][:200]})
                    return
                got = ("OK", MM.plain(docs[0]))
        else:
            kw = {}
            if rules:
                kw["rules"] = rules
            if keys:
                kw["keys"] = keys
            if kw:
                ctx.counters["rules_cases"] = ctx.counters.get("rules_cases", 0) + 1
            mc = MergerConfig(LOG, SimpleNamespace(**cfg), **kw)
        if delivery != "cli":
            ctx.evaluations += 1
            m = Merger(LOG, Ld, mc)
            try:
                m.merge_with(Rd)
                got = ("OK", MM.plain(m.data))
            except (MergeException, YAMLPathException) as e:
                got = ("ERR", str(e)[:100])
            except Exception as e:
                ctx.violation("crash/%s@%s/%s-into-%s" % (type(e).__name__, where(e), rkind(Rp), rkind(Lp)), {
                    "case": case, "summary": "%s: %s" % (type(e).__name__, str(e)[:150])})
                return
    finally:
        if ini and os.path.exists(ini):
            os.unlink(ini)
    if exp[0] == "UNSPEC":
        ctx.count("abstain/" + exp[1][:40])
        return
    ctx.counters["model_decided"] = ctx.counters.get("model_decided", 0) + 1
    ctx.mark_nontrivial([ltext, rtext, combo, delivery, rules, keys])
    if exp[0] == "ERR":
        ctx.counters["documented_error_cases"] = ctx.counters.get("documented_error_cases", 0) + 1
        if got[0] != "ERR":
            ctx.violation("no-merge-error/%s-into-%s" % (rkind(Rp), rkind(Lp)), {
                "case": case, "summary": "documented impossible (%s) but produced %r" % (exp[1], got[1])})
        return
    if got[0] == "ERR":
        ctx.violation("merge-error-for-defined-merge/%s-into-%s" % (rkind(Rp), rkind(Lp)), {
            "case": case, "summary": "raised %s ; policies define %r" % (got[1], exp[1])})
        return
    if MM.norm(exp[1]) != MM.norm(got[1]):
        d = first_diff(exp[1], got[1]) or ("", "?")
        ctx.violation("differs/%s" % d[1], {"case": case, "summary": "at %s: policies define %r ; got %r" % (
            d[0] or "/", exp[1], got[1])})
        return
    if not MM.left_order_kept(Lp, Rp, got[1]):
        ctx.violation("left-key-order-changed", {"case": case, "summary": "left keys reordered: %r -> %r" % (Lp, got[1])})


def run_sequence(ctx, ltext, rtexts, combo, rules):
    """One Merger absorbing several right-hand documents in turn (what every multi-document mode does): each step
    is the policy-defined merge of the accumulated document with the next one; per-path rules name paths, so they
    apply to the node at that path of *each* right-hand document and to nothing else."""
    try:
        Ld = yp.load(ltext)
        Rds = [yp.load(t) for t in rtexts]
    except yp.LoadError:
        return
    if Ld is None or any(r is None for r in Rds):
        return
    cfg = dict(hashes=combo[0], arrays=combo[1], aoh=combo[2], sets=combo[3])
    case = {"lhs": ltext, "rhs_sequence": rtexts, "policies": cfg, "delivery": "args", "rules": rules}
    model = MM.Model(cfg, rules, None)
    try:
        exp = MM.plain(Ld)
        for Rd in Rds:
            exp = model.root(exp, MM.plain(Rd))
    except (MM.Impossible, MM.Unspec):
        ctx.count("sequence_not_decided")
        return
    ctx.evaluations += 1
    ctx.counters["sequence_cases"] = ctx.counters.get("sequence_cases", 0) + 1
    ctx.mark_nontrivial([ltext, rtexts, combo, rules])
    m = Merger(LOG, Ld, MergerConfig(LOG, SimpleNamespace(**cfg), rules=rules))
    try:
        for Rd in Rds:
            m.merge_with(Rd)
    except (MergeException, YAMLPathException) as e:
        ctx.violation("sequence/merge-error-for-defined-merge", {"case": case, "summary": str(e)[:150]})
        return
    except Exception as e:
        ctx.violation("sequence/crash/%s@%s" % (type(e).__name__, where(e)), {"case": case, "summary": "%s: %s" % (type(e).__name__, str(e)[:150])})
        return
    got = MM.plain(m.data)
    if MM.norm(exp) != MM.norm(got):
        d = first_diff(exp, got) or ("", "?")
        ctx.violation("sequence/differs/%s" % d[1], {"case": case, "summary": "at %s: policies define %r ; got %r" % (d[0] or "/", exp, got)})


SEEDS = [("{a: 1, b: [1, 2]}", "{a: 2, b: [2, 3]}", ("deep", "all", "left", "unique")),
         ("[{id: 1}]", "[{id: 2}]", ("deep", "all", "left", "unique")),
         ("[{id: 1}]", "[{id: 2}]", ("deep", "all", "right", "unique")),
         ("5", "6", ("deep", "all", "all", "unique")),
         ("{s: [1]}", "{s: !!set {a}}", ("deep", "all", "all", "unique")),
         ("1", "{a: 2}", ("left", "all", "all", "unique")), ("x", "{}", ("right", "all", "all", "unique")),
         ("{a: {b: 1}}", "{a: [1]}", ("deep", "all", "all", "unique")),
         ("{a: 1}", "[1]", ("deep", "all", "all", "unique")), ("{a: 1}", "7", ("deep", "all", "all", "unique")),
         ("!!set {a}", "{b: 1}", ("deep", "all", "all", "unique")),
         ("{l: [{id: 1, v: 1}, {id: 2, v: 2}]}", "{l: [{id: 2, v: 9}, {id: 3, v: 3}]}", ("deep", "all", "deep", "unique"))]


def anchored_rule_case(ctx, rng):
    """A per-path rule must govern the node at its path however anchor conflicts between the two documents are resolved.
    Metamorphic: when the ruled path holds the only node of its kind that meets a counterpart, the run with the rule
    must equal the run with that policy as the default (no reference merge needed; anchored *containers* on both sides)."""
    kind = rng.choice(["seq", "map"])
    def cont(tag):
        if kind == "seq":
            return "[%s]" % ", ".join(rng.sample(["1", "2", "3", "80", "8080", "x"], rng.randrange(1, 4)))
        return "{%s}" % ", ".join("%s: %s" % (k, rng.choice(["1", "2", "x"])) for k in rng.sample(["a", "b", "c"], rng.randrange(1, 3)))
    xl, xr, w = cont("l"), cont("r"), cont("w")
    if xl == xr:
        return
    ltext = "{defaults: &P %s, svc: {name: api, p: %s}, other: 1}" % (xl, w)
    rtext = "{base: &P %s, svc: {p: *P}, other: 2}" % xr
    which, modes = ("arrays", ARRAYS) if kind == "seq" else ("hashes", HASHES)
    anchors = rng.choice(["left", "left", "right", "rename"])
    base_combo = list(rng.choice(ALL_COMBOS))
    mode = rng.choice(modes)
    idx = 1 if kind == "seq" else 0
    if kind == "map":
        return_default = None
    outs = []
    for use_rule in (True, False):
        combo = list(base_combo)
        kw = {}
        if use_rule:
            kw["rules"] = {"/svc/p": mode}
            if kind == "map":
                combo[0] = "deep"            # the root and /svc must merge deeply for the rule's node to be reached at all
        else:
            combo[idx] = mode
            if kind == "map":
                # hashes=<mode> as a default would also govern the root and /svc: only comparable when it is deep
                if mode != "deep":
                    return
        try:
            L, R = yp.load(ltext), yp.load(rtext)
            m = Merger(LOG, L, MergerConfig(LOG, SimpleNamespace(hashes=combo[0], arrays=combo[1], aoh=combo[2], sets=combo[3],
                                                                 anchors=anchors), **kw))
            m.merge_with(R)
            outs.append(("OK", MM.norm(MM.plain(m.data))))
        except (MergeException, YAMLPathException) as e:
            outs.append(("ERR", type(e).__name__))
        except yp.LoadError:
            return
        except Exception as e:
            ctx.violation("anchored-rule/crash/%s@%s" % (type(e).__name__, where(e)), {
                "case": {"lhs": ltext, "rhs": rtext, "anchors": anchors, "rule": {"/svc/p": mode}}, "summary": repr(e)[:150]})
            return
    ctx.evaluations += 1
    ctx.counters["anchored_rule_cases"] = ctx.counters.get("anchored_rule_cases", 0) + 1
    ctx.mark_nontrivial([ltext, rtext, anchors, mode, base_combo])
    if outs[0] != outs[1]:
        ctx.violation("anchored-rule/rule-differs-from-same-policy-as-default/%s/%s" % (which, anchors), {
            "case": {"lhs": ltext, "rhs": rtext, "anchors": anchors, "rule": {"/svc/p": mode}, "policies": base_combo},
            "summary": "with the rule: %r ; with %s=%s as the default: %r" % (outs[0], which, mode, outs[1])})


def merge_key_lhs_case(ctx, rng):
    """The left-hand document uses `<<` merge keys and the right-hand document names, under an inheriting mapping, a key
    that mapping only inherits: the merge may override it there, but the anchored source mapping - which the right-hand
    document does not name - keeps its content (frame condition only; the merged value itself is not modelled)."""
    from vf.model import edits as E
    ltext = gd.gen_merge_doc(rng)
    try:
        L = yp.load(ltext)
    except yp.LoadError:
        return
    inheritors = [k for k, v in L.items() if isinstance(v, dict) and getattr(v, "merge", None)]
    if not inheritors:
        return
    tgt = rng.choice(inheritors)
    inherited = [k for k in L[tgt].keys() if k not in [kk for kk, _ in yp.own_items(L[tgt])]]
    if not inherited:
        return
    keys = [rng.choice(inherited)] + rng.sample(gd.MERGE_KEYS + ["extra"], rng.randrange(0, 3))
    rtext = "{%s: {%s}}" % (tgt, ", ".join("%s: %s" % (k, rng.choice(["{b: 2}", "[y]", "{q: 7, z: 1}", "[1, 2, 3]", "5"])) for k in dict.fromkeys(keys)))
    combo = rng.choice([c for c in ALL_COMBOS if c[0] == "deep"])     # (under hashes=left|right the root itself is kept / replaced whole)
    case = {"lhs": ltext, "rhs": rtext, "policies": dict(hashes=combo[0], arrays=combo[1], aoh=combo[2], sets=combo[3]), "delivery": "args"}
    before = {k: E.image(v) for k, v in L.items() if k != tgt}
    ctx.evaluations += 1
    ctx.counters["merge_key_lhs_cases"] = ctx.counters.get("merge_key_lhs_cases", 0) + 1
    ctx.mark_nontrivial([ltext, rtext, combo, "merge-key-lhs"])
    m = Merger(LOG, L, MergerConfig(LOG, SimpleNamespace(hashes=combo[0], arrays=combo[1], aoh=combo[2], sets=combo[3])))
    try:
        m.merge_with(yp.load(rtext))
    except (MergeException, YAMLPathException):
        return
    except Exception as e:
        ctx.violation("crash/%s@%s/merge-key-lhs" % (type(e).__name__, where(e)), {"case": case, "summary": repr(e)[:150]})
        return
    for k, img in before.items():
        if k not in m.data or E.image(m.data[k]) != img:
            ctx.violation("merge-key-lhs/content-not-named-by-rhs-changed", {"case": case, "summary": "%r changed: %r" % (
                k, E.diff(img, E.image(m.data[k]))[:3] if k in m.data else "removed")})
            return


def nested_paths(t, path=""):
    out = []
    if t[0] == "map":
        for k, v in t[1]:
            out.append((path + "/" + k, v))
            out += nested_paths(v, path + "/" + k)
    return out


def twin_pair(rng):
    """Two sibling subtrees holding an equal child under the same key, inside parents that differ: a per-path rule
    names only one of the two children."""
    x = gen_tree(rng, 1, rng.choice(["map", "seq", "aoh", "set"]))
    xl = derive(rng, x, 1) if rng.random() < 0.8 else x
    if xl[0] != x[0]:
        xl = x
    ka, kb = rng.sample(["a", "b", "c"], 2)
    # the two parents differ in another key - or are equal as well: only the path tells the children apart
    d2l, d2r = ("1", "1") if rng.random() < 0.5 else ("2", "3")
    lt = ("map", [(ka, ("map", [("k", xl), ("d", ("s", "1"))])), (kb, ("map", [("k", xl), ("d", ("s", d2l))]))])
    rt = ("map", [(ka, ("map", [("k", x), ("d", ("s", "1"))])), (kb, ("map", [("k", x), ("d", ("s", d2r))]))])
    return lt, rt, "/%s/k" % rng.choice([ka, kb])


def run_shard(ctx):
    rng = ctx.rng
    if ctx.shard == 0:
        for l, r, combo in SEEDS:
            run_case(ctx, l, r, combo, "args")
            ctx.sample({"lhs": l, "rhs": r, "policies": combo})
    want = SIZES[ctx.tier] // ctx.nshards
    n = 0
    while ctx.evaluations < want:
        if rng.random() < 0.04:
            for _ in range(6):
                anchored_rule_case(ctx, rng)
                merge_key_lhs_case(ctx, rng)
            continue
        if rng.random() < 0.08:
            lt, rt, tpath = twin_pair(rng)
            ltext, rtext = gd.render(lt), gd.render(rt)
            val = rt[1][0][1][1][0][1]
            modes = HASHES if val[0] == "map" else SETS if val[0] == "set" else AOH if (val[1] and val[1][0][0] == "map") else ARRAYS
            halves = [gd.render(("map", [kv])) for kv in rt[1]]
            for combo in covering_sample(rng, 8):
                for mode in modes:
                    ctx.count("twin_rule_cases")
                    run_case(ctx, ltext, rtext, combo, "args", {tpath: mode}, None)
                    # the same content arriving as two right-hand documents merged one after the other by one Merger
                    run_sequence(ctx, ltext, halves if rng.random() < 0.5 else halves[::-1], combo, {tpath: mode})
            continue
        lt = gen_tree(rng, 0, rng.choice(["map", "map", "map", "seq", "aoh", "set", "scalar"]))
        rt = derive(rng, lt) if rng.random() < 0.75 else gen_tree(rng, 0, rng.choice(["map", "seq", "aoh", "set", "scalar"]))
        ltext, rtext = gd.render(lt), gd.render(rt)
        combos = ALL_COMBOS if ctx.tier == "thorough" and rng.random() < 0.2 else covering_sample(rng, 24 if ctx.tier == "quick" else 30)
        for combo in combos:
            x = rng.random()
            if x < 0.12:
                run_case(ctx, ltext, rtext, combo, "ini")
            elif x < 0.15:
                run_case(ctx, ltext, rtext, combo, "cli")
            elif x < 0.3 and rt[0] == "map" and rt[1]:
                # per-path override for one node of R reached through mapping keys (any depth)
                path, val = rng.choice(nested_paths(rt))
                if path.count("/") > 1:
                    ctx.count("nested_rule_cases")
                rules, keys = {}, {}
                if val[0] == "map":
                    rules[path] = rng.choice(HASHES)
                elif val[0] == "seq" and val[1]:
                    if val[1][0][0] == "map":
                        rules[path] = rng.choice(AOH)
                        if rules[path] == "deep" and rng.random() < 0.5 and all(
                                r[0] == "map" and any(k == "name" for k, _ in r[1]) for r in val[1]):
                            keys[path] = "name"
                    else:
                        rules[path] = rng.choice(ARRAYS)
                elif val[0] == "set":
                    rules[path] = rng.choice(SETS)
                run_case(ctx, ltext, rtext, combo, "args", rules or None, keys or None)
            else:
                run_case(ctx, ltext, rtext, combo, "args")
        n += 1
        if n <= 2:
            ctx.sample({"lhs": ltext, "rhs": rtext, "policies": "24-combination covering sample"})


def replay(w):
    c = w["case"]

    class _Ctx:
        def __init__(self):
            self.v, self.evaluations, self.counters = [], 0, {}

        def count(self, *a):
            pass

        def mark_nontrivial(self, *a):
            pass

        def violation(self, m, w):
            self.v.append((m, w["summary"]))
    cx = _Ctx()
    p = c["policies"]
    run_case(cx, c["lhs"], c["rhs"], (p["hashes"], p["arrays"], p["aoh"], p["sets"]), c["delivery"], c.get("rules"), c.get("keys"))
    return {"violated": bool(cx.v), "found": cx.v}


MANIFEST = {
    "level_text": ("Exploration: 5*10^4 (quick) to 3*10^6 (thorough) real Merger.merge_with runs over generated document "
                   "pairs x policy mixes (all 180 combinations per pair on a fifth of the thorough pairs, covering samples "
                   "otherwise) delivered through args, INI [defaults] and per-path rules/keys; results compared with a "
                   "three-valued reference merge written from the policy docstrings; the escape monitor requires every "
                   "failure to be a MergeException/YAMLPathException whatever the shapes."),
    "level_note": ("The reference merge encodes my reading of the policy documentation; undocumented shapes abstain on the "
                   "result (counted) but not on crash-freedom."),
    "technique": "runtime differential monitor: real merge vs three-valued reference merge + escape monitor over policy grid",
}

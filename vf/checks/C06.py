"""C06 — a diff is truthful and complete; it is empty of changes iff the data are equal.

No reference differ.  Oracles:
 (i)   truthfulness (positional modes): each entry's lhs / rhs is what an
       independent resolver finds at the entry's path in L / R; SAME values
       equal, CHANGE values differ;
 (ii)  coverage (positional modes): every scalar leaf of L and of R has an
       entry at its path or at an ancestor path;
 (iii) iff (all modes): (some non-SAME entry) == (documents differ as data,
       sequence order disregarded where a synchronised mode applies);
 (iv)  conservation: per pair of compared scalar lists, left elements are
       accounted once as same/changed/deleted, right elements once as
       same/changed/added;
 (v)   reflexivity: a document compared with an independently loaded copy of
       itself shows no difference.
"""
import copy
from types import SimpleNamespace

from vf.core import yp
from vf.core.yp import YAMLPath, LOG
from vf.gen import docs as gd
from yamlpath.differ import Differ, DifferConfig
from yamlpath.differ.enums import DiffActions
from yamlpath.enums import PathSegmentTypes

PROPERTY = "C06"
LEVEL = "exploration"
RULE = ("pairs (L, R): identical, R = L after 1-5 random insert/delete/replace/reorder edits (also key reorder, type "
        "clashes, nulls as elements and values, empty containers, anchors added to / removed from scalars, Boolean <-> 0/1), "
        "and unrelated pairs; a quarter of the comparisons are the second compare_to() of one Differ object; x array modes {position, value} "
        "x Array-of-Hashes modes {position, dpos, value, key, deep} (key/deep only when every list member is a hash); "
        "hash seeds 0-7 in the thorough tier. Non-trivial = both documents are containers with >=2 nodes; distinct by "
        "(L text, R text, modes)")
ASSUMPTIONS = ["mapping key order is not data; sequence order is data except where a synchronised mode applies to that list",
               "truthfulness and coverage are judged in the positional modes only (the statement's first sentence)",
               "conservation is judged on lists whose members are all scalars, and on Arrays-of-Hashes in value/key modes"]
REACH = [("yamlpath/differ/differ.py", "_diff_between,_diff_dicts,_diff_lists,_diff_sets,_diff_scalars,_diff_arrays_of_scalars,_diff_arrays_of_hashes,_diff_synced_lists,synchronize_lists_by_value,synchronize_lods_by_key,_purge_document,_add_everything", "Differ._diff_* / synchronize_*"),
         ("yamlpath/differ/differconfig.py", "array_diff_mode,aoh_diff_mode,aoh_diff_key", "DifferConfig modes")]
SIZES = {"quick": 150000, "thorough": 3000000}
REQUIRED_COUNTERS = ["reordered_records_cases", "truth_checked", "iff_checked", "conservation_checked", "reflexive_checked", "reused_differ_cases",
                     "pairs_with_anchored_scalars", "pairs_with_aliased_containers"]
ARR = ["position", "value"]
AOH = ["position", "dpos", "value", "key", "deep"]


# ---- tree edits ---------------------------------------------------------------------------
SC = ["null", "true", "1", "2", "1.5", "a", "b", "ab", "''", "x y", "' a'", "'a '", "'a\n'"]     # padded: differ from a by white space only
KEYS = ["a", "b", "c", "id", "name", "'/a'", "'a.b'", "'a/b'", "'&k'", "'x y'"]       # also keys a path must escape (leading /, separators, &, blank)


def gen_tree(rng, depth=0, want=None):
    x = rng.random()
    if want is None:
        want = "scalar" if depth >= 3 or (depth > 0 and x < 0.45) else rng.choice(["map", "map", "seq", "aoh", "seq", "set"])
    if want == "scalar":
        if rng.random() < 0.12:
            # an anchor is not data; ruamel gives an anchored scalar another python type (ScalarBoolean, ScalarInt..)
            return ("anc", "A%d" % rng.randrange(10 ** 6), ("s", rng.choice(["true", "false", "1", "0", "1.5", "a", "''"])))
        return ("s", rng.choice(SC))
    n = rng.randrange(0, 4)
    if want == "map":
        ks = rng.sample(KEYS, min(n, len(KEYS)))
        items = [(k, gen_tree(rng, depth + 1)) for k in ks]
        conts = [i for i, (_k, v) in enumerate(items) if v[0] in ("map", "seq")]
        free = [k for k in KEYS if k not in ks]
        if conts and free and rng.random() < 0.15:
            # an anchored Hash / Array that is aliased under another key: one object living at two paths
            i = rng.choice(conts)
            name = "C%d" % rng.randrange(10 ** 6)
            items[i] = (items[i][0], ("anc", name, items[i][1]))
            items.append((rng.choice(free), ("ali", name)))
        return ("map", items)
    if want == "seq":
        return ("seq", [gen_tree(rng, depth + 1, rng.choice(["scalar", "scalar", "scalar", None])) for _ in range(n)])
    if want == "aoh":
        recs = []
        for i in range(max(1, n)):
            items = [("id", ("s", str(rng.randrange(1, 5))))]
            for k in rng.sample(["a", "b", "name"], rng.randrange(0, 3)):
                items.append((k, gen_tree(rng, depth + 2, rng.choice(["scalar", "scalar", "seq"]))))
            recs.append(("map", items))
        return ("seq", recs)
    return ("set", rng.sample(["p", "q", "r"], rng.randrange(1, 3)))


def subtrees(t, path=()):
    out = [(path, t)]
    if t[0] == "map":
        for i, (_k, v) in enumerate(t[1]):
            out += subtrees(v, path + (i,))
    elif t[0] == "seq":
        for i, v in enumerate(t[1]):
            out += subtrees(v, path + (i,))
    return out


def replace_at(t, path, fn):
    if not path:
        return fn(t)
    i = path[0]
    if t[0] == "map":
        items = list(t[1])
        items[i] = (items[i][0], replace_at(items[i][1], path[1:], fn))
        return ("map", items)
    items = list(t[1])
    items[i] = replace_at(items[i], path[1:], fn)
    return ("seq", items)


def edit_tree(rng, t):
    subs = subtrees(t)
    path, node = rng.choice(subs)
    op = rng.random()

    def fn(n):
        if n[0] == "map":
            items = list(n[1])
            if op < 0.25 and items:
                del items[rng.randrange(len(items))]
            elif op < 0.5:
                k = rng.choice(KEYS)
                if k not in [x[0] for x in items]:
                    items.insert(rng.randrange(len(items) + 1), (k, gen_tree(rng, 2)))
            elif op < 0.58 and items:
                # a key RENAMED (the Hash keeps its size): preferably one holding null - "absent" and "present but null"
                # are different data - and the new key holds the old value, null or something new
                nulls = [j for j, it in enumerate(items) if it[1] == ("s", "null")]
                i = rng.choice(nulls) if nulls and rng.random() < 0.7 else rng.randrange(len(items))
                k = rng.choice(KEYS)
                if k not in [x[0] for x in items]:
                    items[i] = (k, rng.choice([items[i][1], ("s", "null"), gen_tree(rng, 2, "scalar")]))
            elif op < 0.7 and items:
                i = rng.randrange(len(items))
                items[i] = (items[i][0], gen_tree(rng, 2) if rng.random() < 0.8 else ("s", "null"))
            elif op < 0.85 and len(items) > 1:
                rng.shuffle(items)
            else:
                return gen_tree(rng, 2)
            return ("map", items)
        if n[0] == "seq":
            items = list(n[1])
            if op < 0.25 and items:
                del items[rng.randrange(len(items))]
            elif op < 0.5:
                proto = items[0] if items and rng.random() < 0.7 else gen_tree(rng, 2)
                items.insert(rng.randrange(len(items) + 1), proto if rng.random() < 0.4 else gen_tree(rng, 2, "scalar" if proto[0] == "s" else None))
            elif op < 0.7 and items:
                items[rng.randrange(len(items))] = gen_tree(rng, 2)
            elif op < 0.9 and len(items) > 1:
                rng.shuffle(items)
            else:
                return gen_tree(rng, 2)
            return ("seq", items)
        if n[0] == "set":
            return ("set", rng.sample(["p", "q", "r", "s"], rng.randrange(1, 3)))
        if n[0] == "anc" and n[2][0] != "s":
            return n                         # an aliased container keeps its anchor (its alias lives elsewhere)
        if n[0] == "ali":
            return n
        if n[0] == "s" and n[1] in ("a", "' a'", "'a '") and op < 0.4:
            return ("s", rng.choice(["a", "' a'", "'a '", '"a\\n"']))      # the same text with other surrounding white space
        if n[0] == "anc" and op < 0.5:
            return n[2]                      # same data without the anchor
        if n[0] == "s" and op < 0.15 and n[1] != "null":
            return ("anc", "B%d" % rng.randrange(10 ** 6), n)    # same data, now anchored
        if n[0] == "s" and n[1] in ("true", "false", "1", "0") and op < 0.3:
            return ("s", {"true": "1", "1": "true", "false": "0", "0": "false"}[n[1]])    # Boolean <-> number
        if n[0] == "anc" and n[2][1] in ("true", "false", "1", "0") and op < 0.75:
            return ("s", {"true": "1", "1": "true", "false": "0", "0": "false"}[n[2][1]])
        return ("s", rng.choice(SC)) if op < 0.8 else gen_tree(rng, 2)
    return replace_at(t, path, fn)


# ---- independent helpers ----------------------------------------------------------------------
MISSING = object()


def resolve(data, path):
    """Concrete path (keys, [n], set members) -> node or MISSING, without Processor."""
    cur = data
    for (t, a) in YAMLPath(path).escaped:
        if t == PathSegmentTypes.INDEX:
            if isinstance(cur, list) and isinstance(a, int) and -len(cur) <= a < len(cur):
                cur = cur[a]
            else:
                return MISSING
        elif t == PathSegmentTypes.KEY:
            if isinstance(cur, dict):
                hit = MISSING
                for k, v in cur.items():
                    if str(k) == str(a) and (isinstance(k, str) or str(a).lstrip("-").isdigit()):
                        hit = v
                        break
                if hit is MISSING:
                    return MISSING
                cur = hit
            elif yp.is_set(cur):
                hit = MISSING
                for e in cur:
                    if str(e) == str(a):
                        hit = e
                if hit is MISSING:
                    return MISSING
                cur = hit
            elif isinstance(cur, list) and str(a).lstrip("-").isdigit() and -len(cur) <= int(a) < len(cur):
                cur = cur[int(a)]
            else:
                return MISSING
        else:
            return MISSING
    return cur


def norm(n):
    """Data image with unordered mappings."""
    if isinstance(n, dict):
        return ("map", tuple(sorted(((repr(yp.scalar_plain(k)), norm(v)) for k, v in n.items()), key=repr)))
    if yp.is_set(n):
        return ("set", tuple(sorted(repr(yp.scalar_plain(e)) for e in n)))
    if isinstance(n, list):
        return ("seq", tuple(norm(e) for e in n))
    sp = yp.scalar_plain(n)
    if sp[0] in ("int", "float"):
        return ("num", float(sp[1]))
    return sp


def data_equal(l, r, arr, aoh, in_record=False):
    """Equality as data.  Sequence order is disregarded for a list to which a synchronised mode
    applies; lists nested inside the records of a *non-deep* Array-of-Hashes mode are compared
    as they stand (the record is one value there)."""
    if isinstance(l, dict) and isinstance(r, dict):
        if set(map(repr, (yp.scalar_plain(k) for k in l))) != set(map(repr, (yp.scalar_plain(k) for k in r))):
            return False
        rk = {repr(yp.scalar_plain(k)): v for k, v in r.items()}
        return all(data_equal(v, rk[repr(yp.scalar_plain(k))], arr, aoh, in_record) for k, v in l.items())
    if yp.is_set(l) and yp.is_set(r):
        return norm(l) == norm(r)
    if isinstance(l, list) and isinstance(r, list) and not yp.is_set(l) and not yp.is_set(r):
        if len(l) != len(r):
            return False
        is_aoh = len(r) > 0 and isinstance(r[0], dict)
        if in_record:
            sync = False
        else:
            sync = (aoh in ("value", "key", "deep")) if is_aoh else (arr == "value")
        sub_in_record = in_record or (is_aoh and aoh in ("position", "value", "key"))
        if sync and not (is_aoh and aoh in ("key", "deep")):
            sub_in_record = True        # value-synchronised elements are matched as whole values
        if not sync:
            return all(data_equal(a, b, arr, aoh, sub_in_record) for a, b in zip(l, r))
        rest = list(r)
        for a in l:
            for j, b in enumerate(rest):
                if data_equal(a, b, arr, aoh, sub_in_record):
                    del rest[j]
                    break
            else:
                return False
        return True
    if yp.is_container(l) or yp.is_container(r):
        return False
    a, b = yp.scalar_plain(l), yp.scalar_plain(r)
    if a[0] in ("int", "float") and b[0] in ("int", "float"):
        return float(a[1]) == float(b[1])      # 1 vs 1.0: not judged as a difference
    return a == b


def leaves(n, path=""):
    """(slash path, node) for every scalar leaf reachable by plain keys / indexes."""
    out = []
    if isinstance(n, dict):
        for k, v in n.items():
            out += leaves(v, path + "/" + YAMLPath.escape_path_section(str(k), yp.PathSeparators.FSLASH))
    elif yp.is_set(n):
        for e in n:
            out.append((path + "/" + YAMLPath.escape_path_section(str(e), yp.PathSeparators.FSLASH), e))
    elif isinstance(n, list):
        for i, e in enumerate(n):
            out += leaves(e, path + "/[%d]" % i)
    else:
        out.append((path or "/", n))
    return out


def entry_path(e):
    p = YAMLPath(e.path)
    p.separator = yp.PathSeparators.FSLASH
    return str(p)


def segs_of(path):
    return [(t.name, str(a)) for (t, a) in YAMLPath(path).escaped]


def has_aoh(*docs):
    def walk(n):
        if isinstance(n, dict):
            return any(walk(v) for v in n.values())
        if isinstance(n, list) and not yp.is_set(n):
            return any(isinstance(e, dict) for e in n) or any(walk(e) for e in n)
        return False
    return any(walk(d) for d in docs)


def homogeneous_lists(n):
    """Every list holding a hash holds only non-empty hashes (value synchronisation may pair lists
    found at different positions, so this is required of every list of either document)."""
    if isinstance(n, dict):
        return all(homogeneous_lists(v) for v in n.values())
    if isinstance(n, list) and not yp.is_set(n):
        if any(isinstance(e, dict) for e in n) and not all(isinstance(e, dict) and len(e) for e in n):
            return False
        return all(homogeneous_lists(e) for e in n)
    return True


def keyable(l, r):
    """key/deep modes are only offered list pairs whose members are all hashes holding the identity key
    (the first key of the first right-hand record)."""
    if isinstance(l, dict) and isinstance(r, dict):
        return all(keyable(v, r[k]) for k, v in l.items() if k in r)
    if isinstance(l, list) and isinstance(r, list) and not yp.is_set(l) and not yp.is_set(r):
        mem = list(l) + list(r)
        if any(isinstance(e, dict) for e in mem):
            if not all(isinstance(e, dict) and len(e) for e in mem):
                return False
            if not r:
                return False
            key = list(r[0])[0]
            if not all(key in e for e in mem):
                return False
            ids = [e[key] for e in mem if not yp.is_container(e[key])]
            for i, a in enumerate(ids):
                for b in ids[i + 1:]:
                    try:
                        if a == b and yp.scalar_plain(a)[0] != yp.scalar_plain(b)[0]:
                            return False        # python-equal identities of different type (1 / true)
                    except Exception:
                        return False
            # identity keys must be unique per side, else record matching is ambiguous
            for side in (l, r):
                ks = [repr(yp.scalar_plain(e[key])) for e in side]
                if len(set(ks)) != len(ks) or any(yp.is_container(e[key]) for e in side):
                    return False
            lk = {repr(yp.scalar_plain(e[key])): e for e in l}
            return all(keyable(lk[repr(yp.scalar_plain(e[key]))], e) for e in r if repr(yp.scalar_plain(e[key])) in lk)
        return all(keyable(a, b) for a, b in zip(l, r))
    return True


def check_pair(ctx, ltext, rtext, arr, aoh, earlier_rhs=None):
    """earlier_rhs: a document the same Differ object was first asked to compare its left document to (a Differ
    is bound to its left document; every compare_to() must report on that call's pair only)."""
    try:
        L, R = yp.load(ltext), yp.load(rtext)
        E0 = yp.load(earlier_rhs) if earlier_rhs is not None else None
    except yp.LoadError:
        return
    case = {"lhs": ltext, "rhs": rtext, "arrays": arr, "aoh": aoh, "earlier_rhs": earlier_rhs}
    if earlier_rhs is not None and aoh in ("key", "deep") and not (homogeneous_lists(E0) and keyable(L, E0)):
        earlier_rhs = E0 = None
        case["earlier_rhs"] = None
    if aoh in ("key", "deep") and not (homogeneous_lists(L) and homogeneous_lists(R) and keyable(L, R)):
        ctx.count("key_mode_not_applicable_skipped")
        return
    if arr == "value" and aoh in ("position", "dpos") and has_aoh(L, R):
        ctx.count("abstain_array_value_mode_over_positional_aoh")
        return
    if L is None or R is None:
        return
    if "&" in ltext or "&" in rtext:
        ctx.count("pairs_with_anchored_scalars")
    if "&C" in ltext or "&C" in rtext:
        ctx.count("pairs_with_aliased_containers")
    cfg = DifferConfig(LOG, SimpleNamespace(arrays=arr, aoh=aoh))
    ctx.evaluations += 1
    try:
        d = Differ(cfg, LOG, L)
        if E0 is not None:
            d.compare_to(E0)
            list(d.get_report())
            ctx.count("reused_differ_cases")
        d.compare_to(R)
        entries = list(d.get_report())
    except Exception as e:
        ctx.violation("differ-raises/%s" % type(e).__name__, {"case": case, "summary": "%s: %s" % (type(e).__name__, str(e)[:150])})
        return
    if yp.is_container(L) and yp.is_container(R) and (len(leaves(L)) + len(leaves(R))) >= 2:
        ctx.mark_nontrivial([ltext, rtext, arr, aoh])
    positional = arr == "position" and aoh in ("position", "dpos")
    # (i) truthfulness
    if positional:
        for e in entries:
            ctx.counters["truth_checked"] = ctx.counters.get("truth_checked", 0) + 1
            p = entry_path(e)
            act = e.action
            lv = resolve(L, p)
            rv = resolve(R, p)
            summ = None
            if act in (DiffActions.SAME, DiffActions.CHANGE, DiffActions.DELETE):
                if lv is MISSING or norm(lv) != norm(e.lhs):
                    summ = "%s %s: entry lhs %r but left document holds %r" % (act, p, e.lhs, "nothing" if lv is MISSING else lv)
            if summ is None and act in (DiffActions.SAME, DiffActions.CHANGE, DiffActions.ADD):
                if rv is MISSING or norm(rv) != norm(e._rhs):
                    summ = "%s %s: entry rhs %r but right document holds %r" % (act, p, e._rhs, "nothing" if rv is MISSING else rv)
            if summ is None and act is DiffActions.SAME and norm(e.lhs) != norm(e._rhs):
                summ = "SAME %s with unequal values %r / %r" % (p, e.lhs, e._rhs)
            if summ is None and act is DiffActions.CHANGE and norm(e.lhs) == norm(e._rhs):
                summ = "CHANGE %s with equal values %r" % (p, e.lhs)
            if summ is None and act is DiffActions.DELETE and rv is not MISSING and norm(rv) == norm(lv):
                pass
            if summ:
                if act is DiffActions.CHANGE and key_order_differs(e.lhs, e._rhs):
                    ctx.violation("map-key-order-inside-list-element-compared", {"case": case, "summary": summ})
                else:
                    ctx.violation("untruthful/%s" % str(act), {"case": case, "summary": summ})
                break
        # (ii) coverage
        epaths = [segs_of(entry_path(e)) for e in entries]

        def covered(leafpath):
            ls = segs_of(leafpath)
            return any(ep == ls[:len(ep)] for ep in epaths)
        for side, doc in (("left", L), ("right", R)):
            for lp, node in leaves(doc):
                ctx.counters["coverage_checked"] = ctx.counters.get("coverage_checked", 0) + 1
                if not covered(lp):
                    kind = "null-leaf" if node is None else "leaf"
                    ctx.violation("uncovered-%s/%s" % (kind, side), {
                        "case": case, "summary": "%s leaf %s (%r) has no entry at or above it; entries: %r" % (
                            side, lp, node, [(str(e.action), entry_path(e)) for e in entries][:8])})
                    break
    # (iii) iff
    ctx.counters["iff_checked"] = ctx.counters.get("iff_checked", 0) + 1
    differs = any(e.action is not DiffActions.SAME for e in entries)
    equal = data_equal(L, R, arr, aoh)
    if differs == equal:
        if equal:
            mech = "reports-difference-for-equal-data"
            if norm(L) == norm(R) and _null_in_list(L):
                mech += "/null-element"
            elif norm(L) == norm(R):
                mech += "/identical"
        else:
            mech = "silent-on-different-data"
            mech += "/" + silent_kind(L, R)
        if equal and key_order_differs(L, R):
            mech = "map-key-order-inside-list-element-compared"
        ctx.violation(mech, {
            "case": case, "summary": "data equal=%r but entries=%r" % (
                equal, [(str(e.action), entry_path(e)) for e in entries][:8])})
    # (iv) conservation on scalar lists at the same path
    conservation(ctx, case, L, R, entries, arr, aoh)


def key_order_differs(l, r):
    """Equal as data but some mapping lists its keys in another order."""
    if norm(l) != norm(r):
        return False

    def ordered(n):
        if isinstance(n, dict):
            return ("map", tuple((repr(yp.scalar_plain(k)), ordered(v)) for k, v in n.items()))
        if isinstance(n, list) and not yp.is_set(n):
            return ("seq", tuple(ordered(e) for e in n))
        return norm(n)
    return ordered(l) != ordered(r)


def _null_in_list(n):
    if isinstance(n, list):
        return any(e is None for e in n) or any(_null_in_list(e) for e in n)
    if isinstance(n, dict):
        return any(_null_in_list(v) for v in n.values())
    return False


def silent_kind(L, R):
    """Where do two documents differ, for the mechanism name."""
    if type(L) is not type(R) or yp.is_container(L) != yp.is_container(R):
        if (yp.is_container(L) and len(L) == 0) or (yp.is_container(R) and len(R) == 0) or L is None or R is None:
            return "empty-or-null-vs-other-type"
        return "type-clash"
    if isinstance(L, list) and not yp.is_set(L):
        if len(R) == 0 and len(L) > 0:
            return "right-list-empty"
        if len(L) != len(R):
            return "list-length"
        for a, b in zip(L, R):
            if norm(a) != norm(b):
                return silent_kind(a, b)
        return "list-order"
    if isinstance(L, dict):
        for k in L:
            if k in R and norm(L[k]) != norm(R[k]):
                return silent_kind(L[k], R[k])
        return "map-keys"
    return "scalar"


def conservation(ctx, case, L, R, entries, arr, aoh):
    def walk(l, r, path):
        if isinstance(l, dict) and isinstance(r, dict):
            for k in l:
                if k in r and isinstance(k, str) and k.isalnum():
                    walk(l[k], r[k], path + "/" + k)
        elif isinstance(l, list) and isinstance(r, list) and not yp.is_set(l) and not yp.is_set(r):
            scal = all(not yp.is_container(e) for e in list(l) + list(r))        # null elements are values too
            hashes = len(l) and len(r) and all(isinstance(e, dict) for e in list(l) + list(r))
            if (scal and (len(l) or len(r))) or (hashes and ((aoh == "position" and arr == "position") or aoh == "key")):
                pre = segs_of(path) if path else []
                nl = nr = 0
                for e in entries:
                    es = segs_of(entry_path(e))
                    if len(es) == len(pre) + 1 and es[:len(pre)] == pre and es[-1][0] == "INDEX":
                        if e.action in (DiffActions.SAME, DiffActions.CHANGE, DiffActions.DELETE):
                            nl += 1
                        if e.action in (DiffActions.SAME, DiffActions.CHANGE, DiffActions.ADD):
                            nr += 1
                ctx.counters["conservation_checked"] = ctx.counters.get("conservation_checked", 0) + 1
                if nl != len(l) or nr != len(r):
                    ctx.violation("conservation/%s" % ("scalars" if scal else "hashes"), {
                        "case": case, "summary": "list %s: %d left elements accounted %d times, %d right elements %d times" % (
                            path or "/", len(l), nl, len(r), nr)})
    walk(L, R, "")


SEEDS = [("[a, null]", "[a, null]"), ("[1, 2]", "[]"), ("{a: {}}", "{a: []}"), ("[{a: 1}]", "[{a: 1}]"),
         ("[1, 2, 3]", "[3, 1, 2]"), ("{a: 1, b: 2}", "{b: 2, a: 1}"), ("[{id: 1, a: x}, {id: 2, a: y}]", "[{id: 2, a: y}, {id: 1, a: z}]"),
         ("{a: null}", "{a: null}"), ("{a: [1, null, 2]}", "{a: [1, 2]}"), ("[]", "[1]"), ("{a: 1}", "[1]"),
         ("[{a: 1, b: 2}]", "[{b: 2, a: 1}]"), ("{f: &on true}", "{f: 1}"), ("{f: &on true}", "{f: true}"),
         ("[&x 1, a]", "[1, a]"), ("[&x true]", "[1]"), ("{a: [&q false, 0]}", "{a: [0, false]}")]


def run_shard(ctx):
    rng = ctx.rng
    if ctx.shard == 0:
        for l, r in SEEDS:
            for arr in ARR:
                for aoh in AOH:
                    check_pair(ctx, l, r, arr, aoh)
            ctx.sample({"lhs": l, "rhs": r})
    want = SIZES[ctx.tier] // ctx.nshards
    n = 0
    while ctx.evaluations < want:
        if rng.random() < 0.03:
            reordered_records_case(ctx, rng)
        t = gen_tree(rng, 0, rng.choice(["map", "map", "seq", "aoh"]))
        x = rng.random()
        if x < 0.2:
            t2 = t
        elif x < 0.85:
            t2 = t
            for _ in range(rng.randrange(1, 6)):
                t2 = edit_tree(rng, t2)
        else:
            t2 = gen_tree(rng, 0, rng.choice(["map", "seq", "aoh", "scalar"]))
        ltext, rtext = gd.render(t), gd.render(t2)
        all_hashes = _all_lists_hashes(t) and _all_lists_hashes(t2)
        for _ in range(3):
            arr = rng.choice(ARR)
            aoh = rng.choice(AOH)
            earlier = None
            if rng.random() < 0.25:
                t0 = t
                for _e in range(rng.randrange(1, 4)):
                    t0 = edit_tree(rng, t0)
                earlier = gd.render(t0)
            check_pair(ctx, ltext, rtext, arr, aoh, earlier)
        if t2 is t:
            ctx.counters["reflexive_checked"] = ctx.counters.get("reflexive_checked", 0) + 1
        n += 1
        if n <= 2:
            ctx.sample({"lhs": ltext, "rhs": rtext})


def reordered_records_case(ctx, rng):
    """The same records in another order, each record's keys written in another order too (key order is not data), with
    values repeated across records in the non-identity fields: under the key-synchronised modes the documents do not differ."""
    n = rng.randrange(2, 6)
    ids = rng.sample(range(1, 9), n)
    recs = []
    for i in ids:
        fields = [("id", str(i)), ("name", rng.choice(["a", "b", "a"])), ("v", rng.choice(["1", "2", "1"]))]
        if rng.random() < 0.4:
            fields.append(("w", rng.choice(["[1, 2]", "{p: 1}", "null"])))
        recs.append(fields)

    def text(rs, shuffle_keys):
        out = []
        for j, fields in enumerate(rs):
            f = list(fields)
            if shuffle_keys and j > 0:
                rng.shuffle(f)            # (the first record keeps `id` first: the identity key is inferred from it)
            out.append("{%s}" % ", ".join("%s: %s" % kv for kv in f))
        return "[%s]" % ", ".join(out)
    ltext = text(recs, False)
    r2 = list(recs)
    rng.shuffle(r2)
    first = r2[0]
    rtext = text(r2, True)
    wrap = rng.random() < 0.5
    if wrap:
        ltext, rtext = "{recs: %s, o: 1}" % ltext, "{recs: %s, o: 1}" % rtext
    ctx.count("reordered_records_cases")
    for aoh in ("key", "deep"):
        check_pair(ctx, ltext, rtext, rng.choice(ARR), aoh)


def _all_lists_hashes(t):
    """key/deep modes are only offered lists whose members are all hashes (with the id key)."""
    if t[0] == "seq":
        if t[1] and any(c[0] == "map" for c in t[1]):
            if not all(c[0] == "map" and c[1] and c[1][0][0] == "id" for c in t[1]):
                return False
        return all(_all_lists_hashes(c) for c in t[1])
    if t[0] == "map":
        return all(_all_lists_hashes(v) for _k, v in t[1])
    return True


def replay(w):
    c = w["case"]

    class _Ctx:
        def __init__(self):
            self.v, self.evaluations, self.counters = [], 0, {}

        def count(self, *a):
            pass

        def mark_nontrivial(self, *a):
            pass

        def violation(self, m, w):
            self.v.append((m, w["summary"]))
    cx = _Ctx()
    check_pair(cx, c["lhs"], c["rhs"], c["arrays"], c["aoh"], c.get("earlier_rhs"))
    return {"violated": bool(cx.v), "found": cx.v}


MANIFEST = {
    "level_text": ("Exploration: 6*10^4 (quick) to 1.5*10^6 (thorough) real Differ.compare_to/get_report runs over generated "
                   "document pairs x 2 array modes x 5 Array-of-Hashes modes; invariant oracles only (truthfulness via an "
                   "independent path resolver, leaf coverage, iff against data equality, per-list conservation, "
                   "reflexivity) - no reference differ."),
    "level_note": ("Data equality treats mappings as unordered and sequences as ordered except where a synchronised mode "
                   "applies; conservation is judged on scalar lists and value/key-mode Arrays-of-Hashes only."),
    "technique": "runtime invariant monitor over recorded diff entries (truthfulness, coverage, iff, conservation, reflexivity)",
}

"""C19 — EYAML key rotation re-keys every secret once and touches nothing else.

The real eyaml-rotate-keys entry point is run with -x tools/fake-eyaml, a
deterministic stand-in implementing the same command-line protocol with a
keyed reversible cipher (wrong key => exit 1).  Monitors: protocol log written
by the stand-in (exactly-once of decrypt(old)/encrypt(new) per secret node),
file-system audit trace, bytes / directory listing.  Oracle: by construction
(the generator knows where the secrets and the look-alikes are).
"""
import base64
import hashlib
import json
import os
import shutil

from vf.core import yp
from vf.core.harness import VERIF_ROOT
from vf.mon import cli
from vf.model import edits as E

PROPERTY = "C19"
LEVEL = "exploration"
RULE = ("block-style documents mixing plaintext with secrets at hash values and list elements (nested to depth 3), as plain, "
        "quoted and folded scalars, with interior spaces / line breaks, anchored + aliased secrets, duplicate un-anchored "
        "secrets, and look-alikes (xENC[, enc[, ENC without bracket, text containing ENC[ later); also files with no secret; "
        "plaintexts holding CR / CRLF / LF / TAB; one to three files per invocation (anchor names recur from file to file); "
        "with and without --backup; through the real eyaml-rotate-keys main() and the stand-in eyaml. Non-trivial = the "
        "document holds >=1 secret or >=1 look-alike; distinct by document text and options")
ASSUMPTIONS = ["the stand-in cipher replaces real PKCS7 (prescribed by the property's quantifier); whitespace = space and newline",
               "secrets occur as values and list elements, not as keys"]
REACH = [("yamlpath/commands/eyaml_rotate_keys.py", "main,validateargs", "eyaml_rotate_keys.main"),
         ("yamlpath/eyaml/eyamlprocessor.py", "_find_eyaml_paths,find_eyaml_paths,decrypt_eyaml,encrypt_eyaml,set_eyaml_value,is_eyaml_value", "EYAMLProcessor")]
SIZES = {"quick": 800, "thorough": 10000}
REQUIRED_COUNTERS = ["dates_and_timestamps_checked", "container_anchors_checked", "docs_with_secret_in_anchored_list_element", "folded_anchored_secrets", "rotations", "secrets_checked", "anchored_secret_docs", "folded_secrets", "no_secret_files", "lookalikes_checked", "backup_runs",
                     "multi_file_runs", "secrets_with_cr_lf_tab", "secrets_with_split_marker", "dotted_secret_keys", "docs_with_secret_in_merge_source"]
FAKE = os.path.join(VERIF_ROOT, "tools", "fake-eyaml")
PLAIN = ["s3cret", "p@ss w0rd", "x", "multi word secret value", "0123456789" * 9, "a:b", "tr=ue",
         "line1\r\nline2\r\nline3", "cr\ronly", "two\nlines", "tab\tsep", "-----BEGIN KEY-----\r\nAAAA\r\n-----END KEY-----",
         "  indented passphrase", "\tkey = value", " x", "\n\nafter blank lines", "ENC[looks,encrypted]"]      # leading white space is part of the secret


def stream(ident, n):
    out, c = b"", 0
    while len(out) < n:
        out += hashlib.sha256(("%s/%d" % (ident, c)).encode()).digest()
        c += 1
    return out[:n]


def enc(ident, text):
    body = hashlib.sha256(ident.encode()).digest()[:4] + text.encode()
    ct = bytes(a ^ b for a, b in zip(body, stream(ident, len(body))))
    return "ENC[PKCS7," + base64.b64encode(ct).decode() + "]"


def dec(ident, value):
    """plaintext or None when the value does not decrypt under this key."""
    s = str(value).replace("\n", "").replace(" ", "").strip()
    if not (s.startswith("ENC[PKCS7,") and s.endswith("]")):
        return None
    try:
        ct = base64.b64decode(s[10:-1])
    except Exception:
        return None
    body = bytes(a ^ b for a, b in zip(ct, stream(ident, len(ct))))
    if body[:4] != hashlib.sha256(ident.encode()).digest()[:4]:
        return None
    return body[4:].decode(errors="replace")


class Gen:
    """Builds block YAML text and remembers what every leaf is."""

    def __init__(self, rng):
        self.r = rng
        self.lines = []
        self.leaves = []          # (kind, plaintext) in document order of *definition sites*
        self.anchor_n = 0
        self.anchors = []         # (name, plaintext)
        self.n_secret = self.n_look = self.n_folded = self.n_ctl = self.n_marker_split = self.n_dotted = self.n_merge = self.n_folded_anchored = self.n_tmpl = self.n_dates = 0

    def leaf(self, indent, prefix, force=None):
        r = self.r
        x = r.random()
        if force == "secret":
            x = 0.0
        elif force == "plain":
            x = 0.99
        pad = "  " * indent
        if x < 0.32:
            pt = r.choice(PLAIN)
            ct = enc("old", pt)
            if any(c in pt for c in "\r\n\t"):
                self.n_ctl += 1
            style = r.choice(["plain", "plain", "dq", "folded", "spaced", "anchor", "spaced-in-marker", "folded-in-marker", "folded-anchor"])
            self.n_secret += 1
            if style == "plain":
                self.lines.append("%s%s %s" % (pad, prefix, ct))
            elif style == "dq":
                self.lines.append('%s%s "%s"' % (pad, prefix, ct))
            elif style == "spaced":
                # interior whitespace: still "begins with ENC[" once whitespace is ignored
                self.lines.append('%s%s "%s"' % (pad, prefix, ct[:14] + " " + ct[14:]))
            elif style == "spaced-in-marker":
                # white space INSIDE the ENC[ marker itself: ignoring white space, the value still begins with ENC[
                k = r.choice([1, 2, 3])
                self.n_marker_split += 1
                self.lines.append('%s%s "%s"' % (pad, prefix, ct[:k] + " " + ct[k:]))
            elif style in ("folded", "folded-in-marker", "folded-anchor"):
                self.n_folded += 1
                first = 24
                if style == "folded-anchor":
                    # an anchored folded secret (an alias to it may or may not follow)
                    self.anchor_n += 1
                    name = "S%d" % self.anchor_n
                    if r.random() < 0.5:
                        self.anchors.append((name, pt))
                    prefix = "%s &%s" % (prefix, name)
                    self.n_folded_anchored += 1
                if style == "folded-in-marker":
                    first = r.choice([1, 2, 3])      # the line break falls inside the marker
                    self.n_marker_split += 1
                chunks = [ct[:first]] + [ct[i:i + 24] for i in range(first, len(ct), 24)]
                self.lines.append("%s%s >" % (pad, prefix))
                for c in chunks:
                    self.lines.append("%s    %s" % (pad, c))
            else:
                self.anchor_n += 1
                name = "S%d" % self.anchor_n
                self.anchors.append((name, pt))
                self.lines.append("%s%s &%s %s" % (pad, prefix, name, ct))
            self.leaves.append(("secret", pt))
        elif x < 0.42 and self.anchors:
            name, pt = r.choice(self.anchors)
            self.lines.append("%s%s *%s" % (pad, prefix, name))
            self.leaves.append(("alias", pt))
        elif x < 0.6:
            self.n_look += 1
            v = r.choice(['"x' + enc("old", "zz") + '"', '"enc[PKCS7,abc]"', '"ENC PKCS7"', '"see ENC[PKCS7,abc] here"',
                          '"[ENC[PKCS7,abc]]"', "ENCODED", '"EN C"'])
            self.lines.append("%s%s %s" % (pad, prefix, v))
            self.leaves.append(("lookalike", v))
        else:
            v = r.choice(["plain", "42", "true", "null", "'quoted text'", "1.5", '"a b"',
                          # dates and timestamps (with offsets of every sign, whole and fractional hours)
                          "2020-01-02", "2021-03-04 01:20:30-03:30", "2001-12-14T21:59:43.10-05:00", "2020-12-31T23:59:59+05:30",
                          "2021-06-07 08:09:10Z", "2019-02-03 04:05:06-00:30", "2021-03-04 01:20:30 +09:00"])
            if v[:2] in ("20", "19"):
                self.n_dates += 1
            self.lines.append("%s%s %s" % (pad, prefix, v))
            self.leaves.append(("plain", v))

    def node(self, indent, depth):
        r = self.r
        # '&S1' / '&k': keys spelled like an anchor reference (S1 is also the name of the first anchored secret)
        keys = r.sample(["alpha", "beta", "gamma", "delta", "eps", "zeta", '"&S1"', '"&k"'], r.randrange(2, 5))
        if depth < 2 and r.random() < 0.15:
            # a key with a path separator inside, next to the plain node its text spells out as a path (db -> password)
            self.lines.append("%sdb:" % ("  " * indent))
            self.leaf(indent + 1, "password:", force="plain")
            self.leaf(indent, '"db.password":', force="secret")
            self.n_dotted += 1
        for k in keys:
            x = r.random()
            if depth < 2 and x < 0.25:
                self.lines.append("%s%s:" % ("  " * indent, k))
                self.node(indent + 1, depth + 1)
            elif depth < 2 and x < 0.45:
                self.lines.append("%s%s:" % ("  " * indent, k))
                for _ in range(r.randrange(1, 4)):
                    self.leaf(indent + 1, "-")
            else:
                self.leaf(indent, k + ":")

    def build(self, want_secret=True):
        self.lines = ["---"]
        if self.r.random() < 0.15:
            # a mapping that other mappings merge with <<, holding an anchored secret: inheritors must keep inheriting
            # it (no own copy of the key appears in them) and the key order they show must stay
            self.lines.append("mbase: &MB")
            self.leaf(1, "host:", force="plain")
            pt = self.r.choice(PLAIN[:7])
            self.n_secret += 1
            self.n_merge += 1
            self.lines.append("  password: &MP %s" % enc("old", pt))
            self.leaves.append(("secret", pt))
            self.leaf(1, "user:", force="plain")
            self.lines.append("msvc:")
            self.lines.append("  <<: *MB")
            self.leaf(1, "extra:", force="plain")
            self.lines.append("mjobs:")
            self.lines.append("  - <<: *MB")
            self.lines.append("    n: 1")
            self.leaves.append(("plain", "1"))
        if self.r.random() < 0.15:
            # the "list of templates merged elsewhere" layout: an anchored mapping DEFINED as a list element holds a
            # secret; so does an anchored sequence defined as a list element
            self.n_tmpl += 1
            self.lines.append("templates:")
            self.lines.append("  - &T1")
            self.leaf(2, "host:", force="plain")
            self.leaf(2, "password:", force="secret")
            # (an anchored sequence nothing refers to: rarely - an ALIASED container holding a secret is not generated,
            # the tool finds that secret once per reference and ends with a non-zero status, which the property excludes)
            self.lines.append("  - &T2" if self.r.random() < 0.3 else "  -")
            self.leaf(2, "-", force="secret")
            self.leaf(2, "-")
            self.lines.append("tsvc:")
            self.lines.append("  <<: *T1")
            self.leaf(1, "port:", force="plain")
        self.node(0, 0)
        return "\n".join(self.lines) + "\n"


def scalar_leaves(data):
    """Leaves of the loaded document in document order: (loc, node)."""
    out = []

    def walk(n, loc):
        if isinstance(n, dict):
            for i, (k, v) in enumerate(yp.own_items(n)):       # what a mapping inherits through << is not its own
                walk(v, loc + (i,))
        elif isinstance(n, list):
            for i, e in enumerate(n):
                walk(e, loc + (i,))
        else:
            out.append((loc, n))
    walk(data, ())
    return out


def build_file(ctx, rng, no_secret):
    g = Gen(rng)
    for _ in range(20):
        text = g.build()
        if bool(g.n_secret) == (not no_secret):
            break
        g = Gen(rng)
    else:
        return None
    try:
        before_data = yp.load(text)
    except yp.LoadError:
        ctx.count("generated_doc_rejected")
        return None
    leaves0 = scalar_leaves(before_data)
    if len(leaves0) != len(g.leaves):
        ctx.count("generator_leaf_mismatch")
        return None
    return {"g": g, "text": text, "before": before_data, "leaves0": leaves0, "no_secret": no_secret}


def run_case(ctx, rng, box, backup, no_secret=False):
    """One eyaml-rotate-keys invocation over 1-3 files (anchor names S1, S2.. recur from file to file)."""
    nfiles = rng.choice([1, 1, 2, 3])
    files = []
    for i in range(nfiles):
        f = build_file(ctx, rng, no_secret if i == 0 else rng.random() < 0.15)
        if f is None:
            return
        files.append(f)
    shutil.rmtree(box, ignore_errors=True)
    os.makedirs(box)
    for name, body in (("old.pub", "PUB:old"), ("old.priv", "PRIV:old"), ("new.pub", "PUB:new"), ("new.priv", "PRIV:new")):
        with open(os.path.join(box, name), "w") as f:
            f.write(body + "\n")
    for i, fl in enumerate(files):
        fl["name"] = "doc.yaml" if i == 0 else "doc%d.yaml" % i
        fl["target"] = os.path.join(box, fl["name"])
        with open(fl["target"], "w", newline="") as f:
            f.write(fl["text"])
        fl["stale"] = backup and rng.random() < 0.3
        if fl["stale"]:
            with open(fl["target"] + ".bak", "w") as f:
                f.write("stale backup\n")
    logf = os.path.join(box, "eyaml.log")
    os.environ["VF_EYAML_LOG"] = logf
    argv = ["-x", FAKE, "-i", os.path.join(box, "old.priv"), "-c", os.path.join(box, "old.pub"),
            "-r", os.path.join(box, "new.priv"), "-u", os.path.join(box, "new.pub")]
    if backup:
        argv.append("-b")
        ctx.counters["backup_runs"] = ctx.counters.get("backup_runs", 0) + 1
    case = {"docs": [fl["text"] for fl in files], "backup": backup, "stale_bak": [fl["stale"] for fl in files]}
    r = cli.run("eyaml_rotate_keys", argv + [fl["target"] for fl in files], sandbox=box)
    os.environ.pop("VF_EYAML_LOG", None)
    ctx.evaluations += 1
    ctx.counters["rotations"] = ctx.counters.get("rotations", 0) + 1
    if nfiles > 1:
        ctx.counters["multi_file_runs"] = ctx.counters.get("multi_file_runs", 0) + 1
    if any(fl["g"].n_secret or fl["g"].n_look for fl in files):
        ctx.mark_nontrivial([case["docs"], backup, case["stale_bak"]])
    if r["exc"]:
        ctx.violation("crash", {"case": case, "summary": r["exc"][:200]})
        return
    if r["code"] != 0:
        ctx.violation("nonzero-exit", {"case": case, "summary": "exit %d: %s" % (r["code"], r["err"][:200])})
        return
    log = [json.loads(ln) for ln in open(logf)] if os.path.exists(logf) else []
    nsec_total = 0
    for fi, fl in enumerate(files):
        n = check_file(ctx, dict(case, file_index=fi), fl, r, backup)
        if n is None:
            return
        nsec_total += n
    # ---- protocol log: exactly once, over the whole invocation ----------------------------------------------
    decs = [e for e in log if e["op"] == "decrypt"]
    encs = [e for e in log if e["op"] == "encrypt"]
    if len(decs) != nsec_total or len(encs) != nsec_total:
        ctx.violation("not-exactly-once", {"case": case, "summary": "%d secret nodes but %d decrypt / %d encrypt invocations" % (
            nsec_total, len(decs), len(encs))})
        return
    if any(e["code"] != 0 for e in log) or any(e.get("key") != "old" for e in decs) or any(e.get("key") != "new" for e in encs):
        ctx.violation("wrong-key-used", {"case": case, "summary": repr(log)[:300]})
        return
    if sorted(e.get("plain") for e in decs) != sorted(e.get("plain") for e in encs):
        ctx.violation("plaintext-not-conserved", {"case": case, "summary": "decrypt outputs and encrypt inputs differ"})
        return


def check_file(ctx, case, fl, r, backup):
    """Returns the number of distinct secret nodes of this file, or None after a violation."""
    g, text, target, stale, before_data, leaves0 = fl["g"], fl["text"], fl["target"], fl["stale"], fl["before"], fl["leaves0"]
    after_bytes = open(target, "rb").read()
    if fl["no_secret"]:
        ctx.counters["no_secret_files"] = ctx.counters.get("no_secret_files", 0) + 1
        if after_bytes != text.encode():
            ctx.violation("no-secret-file-rewritten", {"case": case, "summary": "bytes changed"})
            return None
        if os.path.exists(target + ".bak") and not stale:
            ctx.violation("no-secret-file-backed-up", {"case": case, "summary": ".bak appeared"})
            return None
        if any(e.get("write") for e in r["trace"] if e["ev"] == "open" and e.get("path") == fl["name"]):
            ctx.violation("no-secret-file-opened-for-writing", {"case": case, "summary": repr(r["trace"])[:200]})
            return None
        return 0
    # ---- reload ---------------------------------------------------------------------------------------
    try:
        after = yp.load(after_bytes.decode())
    except yp.LoadError:
        ctx.violation("rotated-file-does-not-load", {"case": case, "summary": after_bytes[:300].decode(errors="replace")})
        return None
    leaves1 = scalar_leaves(after)
    if [l for l, _ in leaves1] != [l for l, _ in leaves0]:
        ctx.violation("structure-changed", {"case": case, "summary": "leaf locations differ after rotation"})
        return None
    distinct_secret_nodes = {}
    for (loc, n0), (_, n1), (kind, info) in zip(leaves0, leaves1, g.leaves):
        if kind in ("secret", "alias"):
            ctx.counters["secrets_checked"] = ctx.counters.get("secrets_checked", 0) + 1
            new_pt = dec("new", n1)
            if new_pt != info:
                ctx.violation("secret-not-rekeyed/%s" % kind, {"case": case, "summary": "at %r: decrypts under the new key to %r, expected %r ; value %r" % (
                    loc, new_pt, info, str(n1)[:60])})
                return None
            if dec("old", n1) is not None:
                ctx.violation("secret-still-decrypts-under-old-key", {"case": case, "summary": "at %r" % (loc,)})
                return None
            distinct_secret_nodes[id(n0)] = True
            if yp.anchor_of(n0) != yp.anchor_of(n1):
                ctx.violation("secret-anchor-changed", {"case": case, "summary": "at %r: %r -> %r" % (loc, yp.anchor_of(n0), yp.anchor_of(n1))})
                return None
        else:
            if kind == "lookalike":
                ctx.counters["lookalikes_checked"] = ctx.counters.get("lookalikes_checked", 0) + 1
            if yp.scalar_plain(n0) != yp.scalar_plain(n1) or yp.anchor_of(n0) != yp.anchor_of(n1):
                ctx.violation("non-secret-changed/%s" % kind, {"case": case, "summary": "at %r: %r -> %r" % (loc, n0, n1)})
                return None

    def keys_only(n):
        if isinstance(n, dict):
            return ("map", tuple(yp.merge_refs(n)), tuple((str(k), keys_only(v)) for k, v in yp.own_items(n)),
                    tuple(str(k) for k in n.keys()))         # own keys, merge references, and the effective key order
        if isinstance(n, list):
            return ("seq", tuple(keys_only(e) for e in n))
        return "leaf"
    if keys_only(before_data) != keys_only(after):
        ctx.violation("keys-or-order-changed", {"case": case, "summary": "structure differs"})
        return None
    # anchors of containers (mappings / sequences), by location; how many places refer to each container
    def container_anchors(data):
        out, refs = {}, {}

        def walk(n, loc):
            if isinstance(n, (dict, list)):
                refs[id(n)] = refs.get(id(n), 0) + 1
                if refs[id(n)] > 1:
                    return
                out[loc] = (yp.anchor_of(n), id(n))
                for _i, m in (getattr(n, "merge", None) or []):
                    walk(m, loc + ("<<",))
                for i, v in enumerate([v for _k, v in yp.own_items(n)] if isinstance(n, dict) else n):
                    walk(v, loc + (i,))
        walk(data, ())
        return {loc: (a, refs[i]) for loc, (a, i) in out.items()}
    ca0, ca1 = container_anchors(before_data), container_anchors(after)
    for loc, (a0, nrefs) in ca0.items():
        a1 = ca1.get(loc, (None, 0))[0]
        if a0 != a1:
            ctx.counters["container_anchor_differences"] = ctx.counters.get("container_anchor_differences", 0) + 1
            if a1 is None and nrefs == 1:
                # the anchor of a container that no alias refers to is not written back
                ctx.violation("container-anchor-lost/never-aliased", {"case": case, "summary": "at %r: &%s is gone from the rotated file" % (loc, a0)})
            else:
                ctx.violation("container-anchor-changed", {"case": case, "summary": "at %r: %r -> %r (%d references)" % (loc, a0, a1, nrefs)})
                return None
    ctx.counters["container_anchors_checked"] = ctx.counters.get("container_anchors_checked", 0) + len([1 for a, _ in ca0.values() if a])
    # shared secrets stay shared
    ids1 = {}
    for (loc, n0), (_, n1) in zip(leaves0, leaves1):
        ids1.setdefault(id(n0), set()).add(id(n1))
    if any(len(v) > 1 for v in ids1.values()):
        ctx.violation("shared-secret-unshared", {"case": case, "summary": "an anchored secret and its alias became different nodes"})
        return None
    if g.anchors:
        ctx.counters["anchored_secret_docs"] = ctx.counters.get("anchored_secret_docs", 0) + 1
    if g.n_folded:
        ctx.counters["folded_secrets"] = ctx.counters.get("folded_secrets", 0) + g.n_folded
    if g.n_dates:
        ctx.counters["dates_and_timestamps_checked"] = ctx.counters.get("dates_and_timestamps_checked", 0) + g.n_dates
    if g.n_tmpl:
        ctx.counters["docs_with_secret_in_anchored_list_element"] = ctx.counters.get("docs_with_secret_in_anchored_list_element", 0) + 1
    if g.n_folded_anchored:
        ctx.counters["folded_anchored_secrets"] = ctx.counters.get("folded_anchored_secrets", 0) + g.n_folded_anchored
    if g.n_merge:
        ctx.counters["docs_with_secret_in_merge_source"] = ctx.counters.get("docs_with_secret_in_merge_source", 0) + 1
    if g.n_dotted:
        ctx.counters["dotted_secret_keys"] = ctx.counters.get("dotted_secret_keys", 0) + g.n_dotted
    if g.n_marker_split:
        ctx.counters["secrets_with_split_marker"] = ctx.counters.get("secrets_with_split_marker", 0) + g.n_marker_split
    if g.n_ctl:
        ctx.counters["secrets_with_cr_lf_tab"] = ctx.counters.get("secrets_with_cr_lf_tab", 0) + g.n_ctl
    # ---- backup -------------------------------------------------------------------------------------------------
    if backup:
        bak = target + ".bak"
        if not os.path.exists(bak) or open(bak, "rb").read() != text.encode():
            ctx.violation("backup-not-identical", {"case": case, "summary": "backup missing or differs from the pre-image"})
            return None
        # the copy must complete before the target is first opened for writing
        k_copy = [e["k"] for e in r["trace"] if e["ev"] == "shutil.copyfile" and os.path.basename(str(e.get("dst", fl["name"] + ".bak"))) == fl["name"] + ".bak"]
        k_write = [e["k"] for e in r["trace"] if e["ev"] == "open" and e.get("write") and e["path"] == fl["name"]]
        if not k_copy or not k_write or min(k_write) < max(k_copy):
            ctx.violation("target-opened-before-backup-complete", {"case": case, "summary": repr(r["trace"])[:300]})
            return None
    elif os.path.exists(target + ".bak"):
        ctx.violation("backup-without-option", {"case": case, "summary": ".bak appeared without --backup"})
        return None
    return len(distinct_secret_nodes)


def run_shard(ctx):
    rng = ctx.rng
    box = os.path.join(os.environ.get("VF_WORKDIR", "/dev/shm"), "c19-%d" % ctx.shard)
    want = max(6, SIZES[ctx.tier] // ctx.nshards)
    n = 0
    while ctx.evaluations < want:
        no_secret = rng.random() < 0.15
        run_case(ctx, rng, box, backup=rng.random() < 0.5, no_secret=no_secret)
        n += 1
        if n > want * 5:
            break
    g = Gen(rng)
    ctx.sample({"doc": g.build()[:600]})
    shutil.rmtree(box, ignore_errors=True)


def replay(w):
    return {"violated": None, "case": w["case"], "note": "write case.doc to a file and run eyaml-rotate-keys -x tools/fake-eyaml"}


MANIFEST = {
    "level_text": ("Exploration: 400 (quick) to 8000 (thorough) real eyaml-rotate-keys runs (each spawning one stand-in eyaml "
                   "process per decrypt/encrypt) over generated documents; by-construction oracle for every leaf (secret / "
                   "alias / look-alike / plain), an offline exactly-once check over the stand-in's protocol log, identity "
                   "of shared secrets after reload, byte/listing checks for files without secrets, and the backup order "
                   "from the file-system audit trace."),
    "level_note": "Stand-in cipher instead of hiera-eyaml/PKCS7 (unavailable offline and prescribed by the property); CRLF block output of the Ruby gem is not reproduced.",
    "technique": "runtime monitoring: protocol log of a stand-in eyaml (exactly-once), audit-hook FS trace, by-construction leaf oracle",
}

"""C14 — parsing any text as a YAML Path ends in segments or a YAML Path error.

Workload: complete enumeration of every string of length <= L over the 27
syntactically significant characters (quick L=4, thorough L=5), a random
sample of lengths L+1..8 over the same alphabet, random longer strings with
arbitrary Unicode, and mutated README-style paths; each under separator
settings AUTO, DOT and FSLASH; each asked for .escaped, .unescaped and str().

Monitors: escape monitor at the API boundary (only YAMLPathException and its
subclasses may cross); step monitor (sys.monitoring LINE events local to
YAMLPath._parse_path, counted per parse on a sample) as the logical-step form
of "never loops"; reach monitor over the parser.
"""
import itertools
import sys

from vf.core import yp
from vf.core.yp import YAMLPath, YAMLPathException, PathSeparators

PROPERTY = "C14"
LEVEL = "exploration"
RULE = ("every string of length<=L over the alphabet " + repr("./[]()'\"\\ &!=^$%<>~*+-:,ab1") +
        " (complete), sampled longer strings over it, random unicode strings to length 64, "
        "token-level strings (keywords, operators, stacked signs, Unicode digits and every kind of whitespace inside "
        "bracket / collector / key templates) and mutations of well-formed paths; x separators {AUTO,DOT,FSLASH} x {escaped, unescaped, str}. "
        "A case (string) is non-trivial when it contains at least one syntactically significant "
        "character and is counted once per distinct string.")
ASSUMPTIONS = [
    "termination is decided as a bound on executed parser lines (80*len+400) on a 2% sample plus a wall-clock watchdog whose firing is INCONCLUSIVE",
    "CPython 3.12 in /venv; str input only (the API takes str)",
]
REACH = [("yamlpath/yamlpath.py", "_parse_path,_expand_splats,_stringify_yamlpath_segments", "YAMLPath._parse_path/_expand_splats/_stringify")]
EXHAUSTIVE_NOTE = "all strings of length <= L over the 27-character alphabet, L given in counters.exhaustive_L"
ALPHABET = "./[]()'\"\\ &!=^$%<>~*+-:,ab1"
SIGNIFICANT = set(ALPHABET) - set("ab1")
SEPS = [PathSeparators.AUTO, PathSeparators.DOT, PathSeparators.FSLASH]
SIZES = {"quick": dict(L=4, longer=60000, rnd=60000, mut=60000, tok=80000),
         "thorough": dict(L=5, longer=1500000, rnd=800000, mut=1500000, tok=2000000)}
STEP_A, STEP_B = 80, 400

SEED_PATHS = [
    "]", "a]", "[a=]]", "a[1]]", "abc[", "(a", "a)", "[a=~", "a\\", "'", "[]", "[=a]", "&", "/&",
    "aliases[&anchor]", "/array/0", "hash.child", "array[0:2]", "sensitive::accounts.database.password",
    "databases[.=~/^prod/].host", "/users[name=admin]/password", "[name!=x]", "a[.^b][.$c][.%d]",
    "(a)+(b)-(c)", "(a.b)[0]", "[has_child(x)]", "[!has_child(x)]", "[max(price)]", "[min()]",
    "[parent(2)]", "[name()]", "**", "a.**.b", "/a/*/b", "a*b", "*a", "a*", "[unique()]", "[distinct(a)]",
    "a['b.c']", 'a."b.c"', "a\\.b", "/a\\/b", "[a > 5]", "[a>=5]", "[a <= 5]", "[.<5]", "[. =~ /x/]",
    "&anchor.child", "/&anchor/child", "((a)+(b))-(c)", "(a)&(b)", "[a == b]", "[a=~_x/y_]",
]


def classify(exc, op):
    name = type(exc).__name__
    tb = exc.__traceback__
    where = "?"
    while tb is not None:
        fn = tb.tb_frame.f_code.co_filename
        if "yamlpath" in fn:
            where = "%s:%s" % (fn.rsplit("/", 1)[-1], tb.tb_frame.f_code.co_name)
        tb = tb.tb_next
    return "escape/%s@%s" % (name, where)


def probe(ctx, text, steps=None):
    """Run one string through the three separator settings and three outputs."""
    nontriv = any(c in SIGNIFICANT for c in text)
    for sep in SEPS:
        for op in ("escaped", "unescaped", "str"):
            ctx.evaluations += 1
            try:
                if steps is not None:
                    steps.begin()
                # the constructor's pathsep argument is overwritten when the text is stored (the separator is then
                # inferred); a separator is *forced* through the property setter, as Processor and DiffEntry do
                p = YAMLPath(text, sep)
                if sep is not PathSeparators.AUTO:
                    p.separator = sep
                if op == "escaped":
                    r = p.escaped
                elif op == "unescaped":
                    r = p.unescaped
                else:
                    r = str(p)
                    if not isinstance(r, str):
                        ctx.violation("str-not-string", {"case": {"text": text, "sep": sep.name, "op": op}})
                ctx.counters["parsed_ok"] = ctx.counters.get("parsed_ok", 0) + 1
            except YAMLPathException:
                ctx.counters["yamlpath_error"] = ctx.counters.get("yamlpath_error", 0) + 1
            except RecursionError as e:
                ctx.violation(classify(e, op), {"case": {"text": text, "sep": sep.name, "op": op},
                                               "summary": "RecursionError"})
            except Exception as e:  # the escape monitor
                ctx.violation(classify(e, op), {"case": {"text": text, "sep": sep.name, "op": op},
                                               "summary": "%s: %s" % (type(e).__name__, e)})
            finally:
                if steps is not None:
                    n = steps.end()
                    ctx.counters["step_samples"] = ctx.counters.get("step_samples", 0) + 1
                    if n > ctx.notes.get("max_steps", (0, ""))[0]:
                        ctx.notes["max_steps"] = (n, text)
                    if n > STEP_A * len(text) + STEP_B:
                        ctx.violation("step-bound", {"case": {"text": text, "sep": sep.name, "op": op},
                                                     "summary": "%d parser lines for %d chars" % (n, len(text))})
    if nontriv:
        ctx.mark_nontrivial(text)


class Steps:
    """Counts LINE events inside the parser's code objects (own tool id)."""

    def __init__(self):
        self.mon = sys.monitoring
        self.tool = self.mon.PROFILER_ID
        self.n = 0
        self.codes = [YAMLPath._parse_path.__code__, YAMLPath._expand_splats.__code__,
                      YAMLPath._stringify_yamlpath_segments.__code__, YAMLPath.ensure_escaped.__code__]
        try:
            self.mon.use_tool_id(self.tool, "vf-steps")
        except ValueError:
            pass
        self.mon.register_callback(self.tool, self.mon.events.LINE, self._line)

    def _line(self, code, line):
        self.n += 1

    def begin(self):
        self.n = 0
        for c in self.codes:
            self.mon.set_local_events(self.tool, c, self.mon.events.LINE)

    def end(self):
        for c in self.codes:
            self.mon.set_local_events(self.tool, c, 0)
        return self.n


def rand_unicode(rng, n):
    out = []
    for _ in range(n):
        x = rng.random()
        if x < 0.55:
            out.append(rng.choice(ALPHABET))
        elif x < 0.7:
            out.append(chr(rng.randrange(0x20, 0x7f)))
        elif x < 0.8:
            out.append(chr(rng.randrange(0, 0x20)))
        elif x < 0.95:
            out.append(chr(rng.randrange(0xa0, 0x3000)))
        else:
            c = rng.randrange(0x10000, 0x10ffff)
            out.append(chr(c))
    return "".join(out)


def mutate(rng, s):
    k = rng.randrange(1, 4)
    s = list(s)
    for _ in range(k):
        x = rng.random()
        pos = rng.randrange(0, len(s) + 1)
        if x < 0.1:
            s.insert(pos, rng.choice(TOKENS))
        elif x < 0.4:
            s.insert(pos, rng.choice(ALPHABET))
        elif x < 0.7 and s:
            del s[min(pos, len(s) - 1)]
        elif x < 0.85 and s:
            s[min(pos, len(s) - 1)] = rng.choice(ALPHABET)
        else:
            s[pos:pos] = list(rng.choice(SEED_PATHS))
    return "".join(s)


# token-level generator: what the character-level enumeration cannot reach within its length bound - words the
# parser knows (keywords, operators) next to whitespace of every kind, stacked signs, digits int() refuses
TOKENS = ["-", "+", "--", "+-", "1", "2", "10", "\u00b9", "\u00b2", "\u2460", "\u0661", ":", "a", "b", " ", "\\ ", "\t", "\n", "\r",
          "\u00a0", "\u2003", "\u3000", "max", "min", "parent", "has_child", "name", "unique", "distinct", "MAX", "Max",
          "(", ")", "()", "(a)", "!", "=", "==", "!=", "=~", "^", "$", "%", ">", "<", ">=", "<=", "*", "**", ".", "&", "'", '"',
          "/", "\\", ",", "~", "\u0000", "\ufeff", "\u200b", "''", '""', "'()'", "'(x)'", '"[a]"', "'a'", "{", "}", "{0}", "{x}",
          # escaped quotes (the backslash is dropped from the escaped form, leaving an unbalanced quote in the segment),
          # and every symbol str() may choose as a RegEx delimiter
          "\\'", '\\"', "it\\'s", '5\\" nail', "#", "@", "_", ";", "/|#@_;,~!", "[/|#@_;,~!]", "/|#@_;,~", "|#@_;,~!"]
TEMPLATES = ["[%s]", "a[%s]", "/a[%s]/b", "a.b[%s].c", "[%s][%s]", "(%s)", "(a)+(%s)", "[a%s]", "[.%s]", "%s", "a.%s", "/%s/b",
             "[!%s]", "&%s", "[&%s]", "[%s:%s]", "[a=%s]", "[a=%s][b=%s]", "(a)+%s", "(a)-%s", "[name()%s", "/h[has_child(k)%s]",
             "[has_child(%s)]", "/h[max(%s)]", "[!min(%s)]", "a[parent(%s)]", "[unique(%s)][name(%s)]",
             "[a =~ :%s:]", "[a=~%%%s%%]", "[.=~ =%s=]", "[a !=~ x%sx]", "k.*%s*x*", "[.=~/%s/]"]


def token_string(rng):
    t = rng.choice(TEMPLATES)
    parts = tuple("".join(rng.choice(TOKENS) for _ in range(rng.randrange(1, 6))) for _ in range(t.count("%s")))
    return t % parts


def run_shard(ctx):
    sz = SIZES[ctx.tier]
    steps = Steps()
    rng = ctx.rng
    if ctx.shard == 0:
        for t in SEED_PATHS:
            probe(ctx, t, steps)
            ctx.sample({"text": t})
    # exhaustive part, strided over shards
    L = sz["L"]
    ctx.counters["exhaustive_L"] = L if ctx.shard == 0 else 0
    idx = 0
    for n in range(0, L + 1):
        for tup in itertools.product(ALPHABET, repeat=n):
            if idx % ctx.nshards == ctx.shard:
                text = "".join(tup)
                probe(ctx, text, steps if (idx // ctx.nshards) % 50 == 0 else None)
                ctx.counters["enumerated"] = ctx.counters.get("enumerated", 0) + 1
            idx += 1
    # sampled longer strings over the same alphabet
    for i in range(sz["longer"] // ctx.nshards):
        n = rng.randrange(L + 1, 9) if rng.random() < 0.8 else rng.randrange(9, 40)
        text = "".join(rng.choice(ALPHABET) for _ in range(n))
        probe(ctx, text, steps if i % 50 == 0 else None)
        if i < 2:
            ctx.sample({"text": text})
    for i in range(sz["rnd"] // ctx.nshards):
        text = rand_unicode(rng, rng.randrange(1, 65))
        probe(ctx, text, steps if i % 50 == 0 else None)
        if i < 1:
            ctx.sample({"text": text})
    for i in range(sz["tok"] // ctx.nshards):
        text = token_string(rng)
        probe(ctx, text, steps if i % 50 == 0 else None)
        ctx.counters["token_strings"] = ctx.counters.get("token_strings", 0) + 1
        if i < 1:
            ctx.sample({"text": text})
    for i in range(sz["mut"] // ctx.nshards):
        text = mutate(rng, rng.choice(SEED_PATHS))
        probe(ctx, text, steps if i % 50 == 0 else None)
        if i < 1:
            ctx.sample({"text": text})


def finish(merged):
    merged["exhaustive"] = True


REQUIRED_COUNTERS = ["step_samples", "enumerated", "token_strings"]


def replay(w):
    c = w["case"]
    sep = PathSeparators[c["sep"]]
    try:
        p = YAMLPath(c["text"], sep)
        if sep is not PathSeparators.AUTO:
            p.separator = sep
        r = {"escaped": lambda: list(p.escaped), "unescaped": lambda: list(p.unescaped), "str": lambda: str(p)}[c["op"]]()
        return {"violated": False, "result": repr(r)}
    except YAMLPathException as e:
        return {"violated": False, "result": "YAMLPathException: %s" % e}
    except Exception as e:
        return {"violated": True, "result": "%s: %s" % (type(e).__name__, e)}

MANIFEST = {
    "level_text": ("Exploration with a complete sub-space: every string of length <=4 (quick) / <=5 (thorough) over the "
                   "27 syntactically significant characters is parsed under three separator settings and three outputs "
                   "(escaped, unescaped, str) with an escape monitor at the API boundary; longer strings are sampled "
                   "(random over the alphabet, arbitrary Unicode, mutations of README paths). Termination is observed "
                   "as a per-parse bound on executed parser lines (sys.monitoring) on a 2% sample. This is the level "
                   "the property's own quantifier asks for (complete enumeration to L, random beyond)."),
    "level_note": ("Trusted: CPython 3.12 sys.monitoring line events; the step bound 80*len+400 is about 3x the observed "
                   "maximum; strings longer than L are only sampled; super-linear behaviour outside sampled lengths would be missed."),
    "technique": "runtime escape monitor + sys.monitoring step counter over exhaustive/short and random/long path strings",
}

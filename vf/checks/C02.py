"""C02 — every result locates its node: coordinates and reported path re-resolve.

Online contract on every non-virtual NodeCoords leaving get_nodes:
 (a) parent[parentref] is node  (set member: node in parent; root: parent None)
 (b) the ancestry chain walks root -> ... -> (parent, parentref)
 (c) str(path) re-queried returns exactly that node at those coordinates, once
     (once per site of the anchor in the same parent when the path ends in
     [&anchor]); again after switching the path's separator.
"""
from vf.core import yp
from vf.core.yp import Processor, YAMLPath, YAMLPathException, NodeCoords, LOG, PathSeparators
from vf.gen import docs as gd
from vf.gen import paths as gp
from yamlpath.exceptions import UnmatchedYAMLPathException
from yamlpath.enums import PathSegmentTypes, PathSearchKeywords
from yamlpath.path import SearchKeywordTerms

PROPERTY = "C02"
LEVEL = "exploration"
RULE = ("random documents (regimes N/U/A, keys additionally drawn from the escapable set . / [ ] ( ) ' \" space ^ $ %) and "
        "the hostile fixed documents x random paths of the C01 fragment plus has_child/min/max/unique/distinct/parent "
        "keyword segments, both notations; the contract is evaluated on every non-virtual result of every query. "
        "A case = (document, path, result index); non-trivial = a real (non-root, non-virtual) node; distinct by "
        "(doc, path text, result index)")
ASSUMPTIONS = ["virtual results (slices, collectors, name()) are skipped and counted",
               "keys with a backslash, a leading & * ! =, or the empty key are outside the statement's character list",
               "in regime N identity of shared scalars is ambiguous; coordinates (parent identity + ref) are compared too"]
REACH = [("yamlpath/processor.py", "_get_nodes_by_key,_get_nodes_by_index,_get_nodes_by_anchor", "key/index/anchor handlers (coordinates)"),
         ("yamlpath/processor.py", "_get_nodes_by_traversal,_get_nodes_by_match_all_unfiltered,_get_nodes_by_match_all_filtered", "traversal / match-all (coordinates)"),
         ("yamlpath/common/keywordsearches.py", "has_child,_has_concrete_child,_has_anchored_child", "has_child"),
         ("yamlpath/common/keywordsearches.py", "parent", "parent()"),
         ("yamlpath/yamlpath.py", "ensure_escaped,escape_path_section", "ensure_escaped / escape_path_section")]
SIZES = {"quick": 160000, "thorough": 2500000}
REQUIRED_COUNTERS = ["contracts_evaluated", "requery_checked", "special_key_results"]
SPECIAL = set(". / [ ] ( ) ' \" ^ $ %".split()) | {" "}


def is_virtual(nc):
    n = nc.node
    if isinstance(n, NodeCoords):
        return True
    if type(n) is list:
        return True
    if type(nc.parent) is list:
        return True          # an element addressed inside a slice's virtual list
    seg = nc.path_segment
    if seg is not None:
        t, a = seg[0], seg[1]
        if t == PathSegmentTypes.COLLECTOR:
            return True
        if isinstance(a, SearchKeywordTerms) and a.keyword is PathSearchKeywords.NAME:
            return True
    return False


def last_kind(nc):
    seg = nc.path_segment
    if seg is None:
        return "none"
    a = seg[1]
    if isinstance(a, SearchKeywordTerms):
        return "KW:" + str(a.keyword)
    return str(seg[0]).split(".")[-1]


def locate(nc):
    """Does (parent, parentref) hold the node?  Returns None if ok else reason."""
    par, ref, node = nc.parent, nc.parentref, nc.node
    if par is None:
        return None if ref is None else "root with a parentref"
    if yp.is_set(par):
        for e in par:
            if e is node:
                return None
        return "set does not contain the node"
    try:
        got = par[ref]
    except Exception as e:
        return "parent[parentref] raises %s" % type(e).__name__
    if got is not node:
        return "parent[parentref] is another object"
    return None


def walk_ancestry(data, nc):
    anc = nc.ancestry
    if nc.parent is None:
        return None if not anc else "root result with ancestry"
    if not anc:
        return "no ancestry for a non-root node"
    cur = data
    for i, (cont, ref) in enumerate(anc):
        if cont is not cur:
            return "ancestry[%d] container is not the node reached so far" % i
        if yp.is_set(cont):
            nxt = None
            for e in cont:
                if e is ref or e == ref:
                    nxt = e
            if nxt is None:
                return "ancestry[%d] ref not in set" % i
        else:
            try:
                nxt = cont[ref]
            except Exception as e:
                return "ancestry[%d] container[ref] raises %s" % (i, type(e).__name__)
        cur = nxt
    if cur is not nc.node:
        return "ancestry does not end at the node"
    last = anc[-1]
    if last[0] is not nc.parent:
        return "last ancestry entry is not the parent"
    return None


def requery(data, nc, text):
    try:
        res = list(Processor(LOG, data).get_nodes(text, mustexist=True))
    except UnmatchedYAMLPathException:
        return "reported path matches nothing"
    except YAMLPathException as e:
        return "reported path raises %s" % type(e).__name__
    except Exception as e:
        return "reported path crashes %s" % type(e).__name__
    # "once per place it is aliased when the path names it by its anchor": decided on the
    # reported path's own last segment
    try:
        lastseg = YAMLPath(text).escaped[-1]
    except Exception:
        lastseg = None
    anchor_last = lastseg is not None and lastseg[0] == PathSegmentTypes.ANCHOR
    if anchor_last:
        par = nc.parent
        name = str(lastseg[1])
        sites = 0
        if isinstance(par, dict):
            for k, v in par.items():
                if yp.anchor_of(k) == name or yp.anchor_of(v) == name:
                    sites += 1
        elif par is not None:
            for e in par:
                if yp.anchor_of(e) == name:
                    sites += 1
        if len(res) != sites or not any(r.node is nc.node for r in res):
            return "anchor path resolves to %d nodes for %d alias sites" % (len(res), sites)
        return None
    if len(res) != 1:
        return "reported path resolves to %d nodes" % len(res)
    r = res[0]
    if r.node is not nc.node:
        return "reported path resolves to another node"
    if r.parent is not nc.parent and nc.parent is not None and locate(nc) is None:
        return "reported path resolves to an equal node elsewhere"
    if locate(nc) is None and nc.parent is not None and not yp.is_set(nc.parent) and r.parentref != nc.parentref:
        return "reported path resolves to another position"
    return None


def contract(ctx, doc_text, data, qtext, idx, nc):
    if not isinstance(nc, NodeCoords) or is_virtual(nc):
        ctx.count("virtual_skipped")
        return
    ctx.evaluations += 1
    ctx.counters["contracts_evaluated"] = ctx.counters.get("contracts_evaluated", 0) + 1
    kind = last_kind(nc)
    case = {"doc": doc_text, "query": qtext, "result_index": idx}
    if nc.parent is not None:
        ctx.mark_nontrivial([doc_text, qtext, idx])
    r = locate(nc)
    if r:
        ctx.violation("coords/%s/%s" % (kind, r), {"case": case, "summary": "%s: node=%r parentref=%r" % (
            r, repr(nc.node)[:50], nc.parentref)})
    a = walk_ancestry(data, nc)
    if a:
        ctx.violation("ancestry/%s/%s" % (kind, a.split("[")[0] if "ancestry[" in a else a), {
            "case": case, "summary": "%s: path=%s" % (a, nc.path)})
    if nc.path is None:
        ctx.violation("path/%s/none" % kind, {"case": case, "summary": "no path reported"})
        return
    try:
        text = str(nc.path)
        other = YAMLPath(nc.path)
        other.separator = (PathSeparators.DOT if nc.path.separator is PathSeparators.FSLASH
                           else PathSeparators.FSLASH)
        text2 = str(other)
    except Exception as e:
        ctx.violation("path/%s/stringify-%s" % (kind, type(e).__name__), {"case": case, "summary": repr(e)})
        return
    ctx.counters["requery_checked"] = ctx.counters.get("requery_checked", 0) + 1
    if any(c in SPECIAL - {".", "/", "[", "]"} for c in text) or "\\" in text:
        ctx.counters["special_key_results"] = ctx.counters.get("special_key_results", 0) + 1
    q = requery(data, nc, text)
    if q:
        ctx.violation("requery/%s/%s" % (kind, q if "resolves to" not in q else q.split(" nodes")[0].rstrip("0123456789") if q[-5:] == "nodes" else q), {
            "case": case, "summary": "%s: reported path %r" % (q, text)})
    elif text2 != text:
        q2 = requery(data, nc, text2)
        if q2:
            ctx.violation("requery-other-notation/%s/%s" % (kind, q2.split(" nodes")[0].rstrip("0123456789") if q2[-5:] == "nodes" else q2), {
                "case": case, "summary": "%s: reported path %r in the other notation %r" % (q2, text, text2)})


def run_query(ctx, doc_text, data, qtext):
    try:
        for (t, a) in YAMLPath(qtext).escaped:
            if t == PathSegmentTypes.COLLECTOR or (
                    isinstance(a, SearchKeywordTerms) and a.keyword is PathSearchKeywords.NAME):
                ctx.count("virtual_path_skipped")     # e.g. quoted parentheses parse as a collector
                return
    except Exception:
        ctx.count("query_unparsable")
        return
    try:
        res = list(Processor(LOG, data).get_nodes(qtext, mustexist=True))
    except YAMLPathException:
        ctx.count("query_yamlpath_error")
        return
    except Exception as e:
        ctx.count("crash_handed_to_C15/" + type(e).__name__)
        return
    for i, nc in enumerate(res[:40]):
        contract(ctx, doc_text, data, qtext, i, nc)


SEEDS = [
    ("{a: [{b: 1}, {b: 2}]}", "a[has_child(b)]"), ("{a: [{b: 1}, {b: 2}]}", "/a/b"),
    ("{a: [{b: 1}, {b: 2}]}", "/a/b[parent()]"), ("{a: [1, [2, 3]]}", "**"),
    ("{a: !!set {x, y}}", "a.*"), ("{a: !!set {x, y}}", "**"), ("{a: [{n: 1}, {n: 2}]}", "a.*[parent()]"),
    ('{"a.b": 1, "c/d": 2, "e[f]": 3, "g h": 4, "i\'j": 5, "k(l)": 6, "m^n$o%p": 7, "q\\"r": 8}', "*"),
    ('{"a.b": {"c/d": [1, {"e f": 2}]}}', "**"),
    ("{a: &A1 x, b: *A1, c: [*A1, y, *A1]}", "c[&A1]"), ("{a: &A1 x, b: *A1}", "&A1"),
    ("[{v: 2}, {v: 5}, {v: 5}]", "[max(v)]"), ("{a: {v: 1}, b: {v: 1}, c: {v: 2}}", "[unique(v)]"),
    ("[1, 2, 2, 3]", "[distinct()]"), ("{a: {b: {c: 1}}}", "a.b.c[parent(2)]"),
    ("{a: &A 1, b: *A, c: [*A, 1]}", "**.c[&A][parent()]"),
    ("{'&x': 1, y: &x 2}", "**"), ("{a: {'&x': 1}, y: &x 2}", "/a/*"),
    ("{r: [{n: 1}, {n: 2}, {n: 3}]}", "/r[0:3]/n"), ("{r: [{n: 1}, {n: 2}, {n: 3}]}", "/r[0:3]/n[parent()]"), ("[{c: &A1 10, b: 1}]", "/[0][&A1][parent(2)]"),
    ("{a: {x: {v: 1}}}", "**[v=1][parent()]"),
    ('{"/x": 1, n: {"/y": 2}}', "**"), ('{"/x": 1}', "*"), ('{"/": {a: 1}}', "/\\//a"),
]


def run_shard(ctx):
    rng = ctx.rng
    if ctx.shard == 0:
        for d, q in SEEDS:
            run_query(ctx, d, yp.load(d), q)
            ctx.sample({"doc": d, "query": q})
    want = SIZES[ctx.tier] // ctx.nshards
    done = 0
    while done < want:
        x = rng.random()
        if x < 0.08:
            text = rng.choice(gd.HOSTILE)
            if "<<" in text:      # YAML merge keys are not in the C01 document corpus (C07 covers them)
                continue
        else:
            regime = rng.choice(["N", "U", "A"])
            text, _ = gd.gen_doc(rng, regime, special_keys=rng.random() < 0.6)
        try:
            data = yp.load(text)
        except yp.LoadError:
            ctx.count("doc_rejected_by_loader")
            continue
        if rng.random() < 0.05:
            # unjudged "noise" between the judged cases: a document whose keys are Python-equal to other documents'
            # keys (true / 1 / 1.0, false / 0) is walked first, so that anything the library remembers from one query
            # to the next (caches keyed by ==) shows in the cases that follow
            try:
                noise = yp.load(rng.choice(["{true: a, false: b, 1.0: c}", "{1.0: a, 0.0: b}", "[{true: x}, {false: y}]"]))
                for sp in (".", "/"):
                    for _r in Processor(LOG, noise).get_nodes("**" if sp == "." else "/**", mustexist=True):
                        str(_r.path)
                ctx.count("noise_walks")
            except Exception:
                pass
        vocab = gp.doc_vocab(data)
        pg = gp.PathGen(rng, vocab, keywords=True)
        fp0 = yp.fingerprint(data)
        for _ in range(8):
            segs = pg.path()
            # name() and array slices produce virtual results (and everything selected *through* them
            # is addressed relative to a virtual node): outside this property's quantifier
            if any((s[0] == "KW" and s[2] == "name") for s in segs):
                ctx.count("virtual_path_skipped")
                continue
            # array slices: the slice result itself is virtual, and so is an element addressed *by position
            # inside* the virtual list ([1:3][0]); nodes reached by key below a slice are real and are judged
            for i, sg in enumerate(segs[:-1]):
                if sg[0] in ("SLICE", "HSLICE") and segs[i + 1][0] in ("INDEX", "SLICE", "HSLICE", "KW", "SEARCH",
                                                                       "ALL", "TRAVERSE", "ANCHOR", "WILD"):
                    segs = segs[:i + 1] + [("KEY", rng.choice(vocab["keys"] or ["a"]))] + segs[i + 2:]
                if sg[0] == "SLICE" and segs[i + 1][0] == "KEY" and segs[i + 1][1].lstrip("-").isdigit():
                    segs = segs[:i + 1] + [("KEY", "a")] + segs[i + 2:]
            if rng.random() < 0.35:
                segs = rng.choice([[("TRAVERSE",)], [("ALL",)], [("ALL",), ("ALL",)],
                                   [("TRAVERSE",), ("SEARCH", False, "=~", ".", ".")],
                                   [("SEARCH", False, "=~", ".", ".")], [("ALL",), ("TRAVERSE",)]])
            try:
                q = gp.render(segs, rng.choice([".", "/"]), style=rng.choice(["bs", "q"]))
            except ValueError:
                continue
            if q.startswith("/") and False:
                continue
            run_query(ctx, text, data, q)
            done += 1
            if done <= 2:
                ctx.sample({"doc": text, "query": q})
        if yp.fingerprint(data) != fp0:
            ctx.count("mutation_by_read_handed_to_C09")


def replay(w):
    c = w["case"]
    data = yp.load(c["doc"])

    class _Ctx:
        def __init__(self):
            self.v, self.evaluations, self.counters = [], 0, {}

        def count(self, *a):
            pass

        def mark_nontrivial(self, *a):
            pass

        def violation(self, m, w):
            self.v.append((m, w["summary"]))
    cx = _Ctx()
    res = list(Processor(LOG, data).get_nodes(c["query"], mustexist=True))
    contract(cx, c["doc"], data, c["query"], c["result_index"], res[c["result_index"]])
    nc = res[c["result_index"]]
    return {"violated": bool(cx.v), "contracts": cx.v, "node": repr(nc.node)[:80], "parentref": repr(nc.parentref),
            "path": str(nc.path)}


MANIFEST = {
    "level_text": ("Exploration: an online contract (parent[ref] is node / set membership, ancestry walk from the root, "
                   "re-resolution of the reported path in both notations) evaluated on every non-virtual NodeCoords "
                   "leaving get_nodes for 4*10^4 (quick) to 1.5*10^6 (thorough) generated queries, on documents whose "
                   "keys include every escapable punctuation character; invariants only, no reference model."),
    "level_note": ("Only results of generated queries are inspected; virtual results are skipped by a structural test "
                   "(plain-list node, NodeCoords node, collector or name() segment)."),
    "technique": "runtime contract monitor on every NodeCoords crossing the get_nodes boundary (coordinates, ancestry, path re-resolution)",
}

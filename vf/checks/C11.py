"""C11 — a merge aimed at a path changes only what lies under that path.

Target locations come from the reference evaluator on a twin of L.  For each
target the expectation is the library's own *root* merge of an independently
loaded copy of that subtree with an independently loaded copy of R
(differential: policy semantics are C05's subject); everything outside the
matched subtrees must be image-identical to the pre-image.  A missing but
creatable path must end up holding R; a path that matches nothing and cannot
be created must raise a merge / YAML Path error.
"""
from types import SimpleNamespace

from vf.core import yp
from vf.core.yp import LOG, YAMLPathException
from vf.gen import docs as gd
from vf.gen import paths as gp
from vf.model import edits as E
from vf.model import pathsem as PS
from vf.checks import C05
from yamlpath.merger import Merger, MergerConfig
from yamlpath.merger.exceptions import MergeException

PROPERTY = "C11"
LEVEL = "exploration"
RULE = ("left documents (maps with nested maps, lists, Arrays-of-Hashes, sets, scalars) x merge targets {existing single "
        "node via a straight key/index path; existing multiple nodes via *, a search, or Array-of-Hashes pass-through; "
        "missing but creatable key path; missing and uncreatable: through a scalar, or a search matching nothing} x "
        "right documents of every root type x a sample of the C05 policies. Non-trivial = the target path matches >=1 "
        "node or is creatable; distinct by (L, R, mergeat, policies)")
ASSUMPTIONS = ["per-target expectation = the library's own root merge of independent copies (C05 judges the policies themselves)",
               "if any single target's merge is impossible the whole merge must raise; the left document's state after a raise is not judged here (the CLI write-out is C16/C17)"]
REACH = [("yamlpath/merger/merger.py", "_insert_dict,_insert_list,_insert_set,_insert_scalar,_get_merge_target_nodes,merge_with,_replace_merge_target", "Merger._insert_* / _get_merge_target_nodes / merge_with"),
         ("yamlpath/merger/mergerconfig.py", "get_insertion_point", "MergerConfig.get_insertion_point")]
SIZES = {"quick": 30000, "thorough": 800000}
REQUIRED_COUNTERS = ["merge_key_target_with_local_override", "self_merging_rhs_cases", "created_keys_with_separator_characters", "create_under_several_parents_cases", "empty_lhs_cases", "rule_at_merge_point_cases", "target_sharing_checked", "merge_key_target_cases", "retyped_equal_rhs_cases", "cli_uncreatable_cases", "traversal_mergeat_cases", "existing_single", "existing_multiple", "created", "uncreatable"]
SAMPLE = [("deep", "all", "all", "unique"), ("deep", "unique", "deep", "unique"), ("right", "right", "right", "right"),
          ("left", "left", "left", "left"), ("deep", "right", "unique", "left"), ("right", "all", "deep", "unique")]


def ns(combo, mergeat):
    return SimpleNamespace(hashes=combo[0], arrays=combo[1], aoh=combo[2], sets=combo[3], mergeat=mergeat)


def root_merge(sub_text, rtext, combo):
    """Library root merge of independent copies: ('OK', data) | ('ERR', msg)."""
    L, R = yp.load(sub_text), yp.load(rtext)
    m = Merger(LOG, L, MergerConfig(LOG, SimpleNamespace(hashes=combo[0], arrays=combo[1], aoh=combo[2], sets=combo[3])))
    try:
        m.merge_with(R)
    except (MergeException, YAMLPathException) as e:
        return ("ERR", str(e)[:100])
    return ("OK", m.data)


def subtree_text(node):
    if yp.is_container(node):
        return yp.dump(node)
    return yp.dump([node])     # scalars are carried inside a list and unwrapped by the caller


def straight_paths(data):
    """(segs, node) for every node reachable by alnum keys / indexes."""
    out = []

    def walk(n, segs):
        if segs:
            out.append((list(segs), n))
        if isinstance(n, dict):
            for k, v in n.items():
                if isinstance(k, str) and k.isalnum() and not k.isdigit():
                    walk(v, segs + [("KEY", k)])
        elif isinstance(n, list) and not yp.is_set(n):
            for i, e in enumerate(n):
                walk(e, segs + [("INDEX", i)])
    walk(data, [])
    return out


def run_case(ctx, ltext, rtext, segs, kind, combo):
    try:
        L = yp.load(ltext)
        R = yp.load(rtext)
    except yp.LoadError:
        return
    if L is None or R is None or not isinstance(L, dict):
        return
    mergeat = gp.render(segs, "/")
    case = {"lhs": ltext, "rhs": rtext, "mergeat": mergeat, "policies": combo, "kind": kind}
    img0 = E.image(L)
    # ---- expectation --------------------------------------------------------------------------------
    expected = None
    expect_err = False
    if kind in ("single", "multiple"):
        try:
            res = PS.Evaluator(segs).run(L)
        except (PS.Documented, PS.Abstain):
            return
        if not res or any(not p.sure for p in res) or any(p.kind in ("s", "root") for p in res):
            return
        locs = [p.ord for p in res]
        if len(set(locs)) != len(locs):
            return
        if any(a != b and a == b[:len(a)] for a in locs for b in locs):
            return            # nested targets: order of application would matter
        expected = E.image(L)
        for p in res:
            node = p.node
            if yp.is_container(node):
                r = root_merge(yp.dump(node), rtext, combo)
            else:
                # a scalar target: the root merge of that scalar alone
                r = root_merge(yp.dump(node) if node is not None else "null", rtext, combo) if node is not None else None
                if r is None:
                    return
            if r[0] == "ERR":
                expect_err = True
                break
            expected = E.put(expected, p.ord, E.image(r[1]))
        ctx.counters["existing_" + kind] = ctx.counters.get("existing_" + kind, 0) + 1
    elif kind == "create":
        expected = E.image(L)
        node = expected
        # walk existing prefix
        i = 0
        cur = L
        while i < len(segs) and isinstance(cur, dict) and segs[i][1] in cur:
            idx = list(cur.keys()).index(segs[i][1])
            node = node["items"][idx][1]
            cur = cur[segs[i][1]]
            i += 1
        if i == len(segs) or not isinstance(cur, dict):
            return
        tail = segs[i:]
        rimg = E.image(R)
        sub = rimg
        for s in reversed(tail[1:]):
            sub = {"t": "map", "a": None, "items": [[["str", s[1]], sub]]}
        node["items"].append([["str", tail[0][1]], sub])
        ctx.counters["created"] = ctx.counters.get("created", 0) + 1
    else:
        expect_err = True
        ctx.counters["uncreatable"] = ctx.counters.get("uncreatable", 0) + 1
    # ---- real ---------------------------------------------------------------------------------------------
    ctx.evaluations += 1
    ctx.mark_nontrivial([ltext, rtext, mergeat, combo])
    m = Merger(LOG, L, MergerConfig(LOG, ns(combo, mergeat)))
    try:
        m.merge_with(R)
        raised = None
    except (MergeException, YAMLPathException) as e:
        raised = e
    except Exception as e:
        ctx.violation("crash/%s@%s/%s" % (type(e).__name__, C05.where(e), kind), {
            "case": case, "summary": "%s: %s" % (type(e).__name__, str(e)[:150])})
        return
    if expect_err:
        if raised is None:
            ctx.violation("no-merge-error/%s" % kind, {"case": case, "summary": "expected a merge / path error; document became %r" % yp.dump(m.data)[:200]})
        return
    if raised is not None:
        ctx.violation("merge-error-for-possible-merge/%s" % kind, {"case": case, "summary": str(raised)[:200]})
        return
    if kind == "multiple" and len(locs) >= 2 and yp.is_container(R):
        # no container object may be held by two different targets (unless it is anchored, i.e. one node by definition):
        # content adopted by one target would change with the merge into the next
        def containers(n, acc):
            if yp.is_container(n) and not yp.is_set(n):
                if yp.anchor_of(n) is None:
                    acc[id(n)] = n
                for c in (n.values() if isinstance(n, dict) else n):
                    containers(c, acc)
            return acc
        seen = {}
        ctx.counters["target_sharing_checked"] = ctx.counters.get("target_sharing_checked", 0) + 1
        for tl in locs:
            node = m.data
            try:
                for i in tl:
                    node = list(node.values())[i] if isinstance(node, dict) else node[i]
            except Exception:
                break
            mine = containers(node, {})
            mine.pop(id(node), None)
            shared = [k for k in mine if k in seen]
            if shared:
                ctx.violation("targets-share-nodes/%s" % kind, {"case": case, "summary": "targets %r and %r hold the same %s object ; result %r" % (
                    seen[shared[0]], tl, type(mine[shared[0]]).__name__, yp.dump(m.data)[:250])})
                return
            for k in mine:
                seen[k] = tl
    actual = E.image(m.data)
    if E.strip_anchors(actual) != E.strip_anchors(expected):
        df = E.diff(E.strip_anchors(expected), E.strip_anchors(actual))
        if kind == "create":
            where = "created-node"
        else:
            inside = any(any(tuple(l[:len(t)]) == tuple(t) for t in locs) for l, _ in df)
            where = "inside-target" if inside and all(any(tuple(l[:len(t)]) == tuple(t) for t in locs) for l, _ in df) else "outside-target"
        ctx.violation("differs/%s/%s" % (kind, where), {"case": case, "summary": "at %r ; result %r" % (df[:3], yp.dump(m.data)[:250])})


def retyped_flow(n):
    """Flow YAML of a copy of n whose scalars are Python-equal but of another type (true <-> 1, 3 <-> 3.0), or None."""
    changed = [False]

    def w(x):
        if isinstance(x, dict):
            if not all(isinstance(k, str) and k.isalnum() for k in x):
                raise ValueError
            return "{%s}" % ", ".join("%s: %s" % (k, w(v)) for k, v in x.items())
        if yp.is_set(x):
            raise ValueError
        if isinstance(x, list):
            return "[%s]" % ", ".join(w(e) for e in x)
        if x is None:
            return "null"
        if isinstance(x, bool) or type(x).__name__ == "ScalarBoolean":
            changed[0] = True
            return "1" if x else "0"
        if isinstance(x, int):
            changed[0] = True
            return "%d.0" % int(x)
        if isinstance(x, float):
            if float(x).is_integer():
                changed[0] = True
                return "%d" % int(x)
            return repr(float(x))
        sx = str(x)
        if not sx.replace(" ", "").isalnum():
            raise ValueError
        return '"%s"' % sx
    try:
        t = w(n)
    except ValueError:
        return None
    return t if changed[0] else None


def dotted_keys(rng, t, depth=0):
    """Some keys get a path separator inside (logging.level, a/b): reachable through wildcards and searches only,
    and any code that re-resolves a reported path must have escaped them."""
    if t[0] != "map":
        return t
    items = []
    for k, v in t[1]:
        if rng.random() < 0.5 and not k.startswith('"'):
            k = '"%s%s%s"' % (k, rng.choice([".", "/", "."]), rng.choice(["x", "level", "b"]))
        items.append((k, dotted_keys(rng, v, depth + 1)))
    return ("map", items)


def merge_key_target_case(ctx, rng):
    """The target is a mapping that inherits keys through `<<`: merging into it may override what it inherits, but the
    anchored source mapping (which lies outside the target) must stay as it was."""
    ltext = gd.gen_merge_doc(rng)
    try:
        L = yp.load(ltext)
    except yp.LoadError:
        return
    inheritors = [k for k, v in L.items() if isinstance(v, dict) and getattr(v, "merge", None)]
    if not inheritors:
        return
    tgt = rng.choice(inheritors)
    inherited = [k for k in L[tgt].keys() if k not in [kk for kk, _ in yp.own_items(L[tgt])]]
    keys = rng.sample(gd.MERGE_KEYS + ["extra"], rng.randrange(1, 4)) + ([rng.choice(inherited)] if inherited else [])
    rtext = "{%s}" % ", ".join("%s: %s" % (k, rng.choice(["{b: 2}", "[y]", "{q: 7, z: 1}", "[1, 2, 3]", "5", "x"])) for k in dict.fromkeys(keys))
    combo = rng.choice(SAMPLE)
    case = {"lhs": ltext, "rhs": rtext, "mergeat": "/" + tgt, "policies": combo, "kind": "merge-key-target"}
    before = {k: E.image(v) for k, v in L.items() if k != tgt}
    # what the target shows under the keys the right-hand document does not name (its own keys - some of them overriding an
    # inherited key - and the keys it only inherits): under the deep Hash policy those keep their values
    rkeys = set(dict.fromkeys(keys))
    own_before = {k: E.image(v) for k, v in yp.own_items(L[tgt]) if k not in rkeys}
    view_before = {k: E.image(L[tgt][k]) for k in L[tgt].keys() if k not in rkeys}
    if any(k in inherited_all(L[tgt]) for k in own_before):
        ctx.count("merge_key_target_with_local_override")
    ctx.evaluations += 1
    ctx.counters["merge_key_target_cases"] = ctx.counters.get("merge_key_target_cases", 0) + 1
    ctx.mark_nontrivial([ltext, rtext, tgt, combo])
    m = Merger(LOG, L, MergerConfig(LOG, ns(combo, "/" + tgt)))
    try:
        m.merge_with(yp.load(rtext))
    except (MergeException, YAMLPathException):
        pass
    except Exception as e:
        ctx.violation("crash/%s@%s/merge-key-target" % (type(e).__name__, C05.where(e)), {"case": case, "summary": repr(e)[:150]})
        return
    for k, img in before.items():
        if k not in m.data or E.image(m.data[k]) != img:
            ctx.violation("differs/merge-key-target/outside-target", {"case": case, "summary": "%r changed: %r" % (
                k, E.diff(img, E.image(m.data[k]))[:3] if k in m.data else "removed")})
            return
    if combo[0] == "deep" and isinstance(m.data.get(tgt), dict):
        now = m.data[tgt]
        own_now = dict(yp.own_items(now))
        for k, img in own_before.items():
            if k not in own_now or E.image(own_now[k]) != img:
                ctx.violation("differs/merge-key-target/own-key-not-named-by-rhs", {"case": case, "summary": "own key %r of the target was %r, now %s ; result %r" % (
                    k, img, "gone from its own keys" if k not in own_now else E.image(own_now[k]), yp.dump(m.data)[:250])})
                return
        # (what the target SHOWS is read from the written document: the Merger deliberately hides inherited keys of the live
        # Hash while it inserts into it - ruamel's insert() would otherwise turn them into own keys)
        try:
            now = yp.load(yp.dump(m.data))[tgt]
        except yp.LoadError:
            return
        for k, img in view_before.items():
            if k not in now or E.image(now[k]) != img:
                ctx.violation("differs/merge-key-target/shown-value-not-named-by-rhs", {"case": case, "summary": "%r of the target read %r before, now %s" % (
                    k, img, "absent" if k not in now else E.image(now[k]))})
                return


def inherited_all(m):
    out = set()
    for _pos, src in getattr(m, "merge", None) or []:
        out |= set(src.keys())
    return out


def rule_at_merge_point_case(ctx, rng):
    """A per-path rule (rules=) that names the merge point itself: the matched node must be the merge of its old content
    with the right-hand document under THAT rule - i.e. what the same merge gives when the rule's mode is the default
    for that node type (flat containers, so the mode matters at the merge point only)."""
    sc = lambda: rng.choice(["auth", "cache", "metrics", "1", "2", "x"])
    lst = lambda: "[%s]" % ", ".join(sc() for _ in range(rng.randrange(1, 4)))
    mp = lambda: "{%s}" % ", ".join("%s: %s" % (k, sc()) for k in rng.sample(["a", "b", "c", "d"], rng.randrange(1, 4)))
    ltext = "{settings: {plugins: %s, opts: %s, plugins2: %s}, other: %s}" % (lst(), mp(), lst(), lst())
    leaf = rng.choice(["plugins", "opts"])
    rtext, modes, slot = (lst(), ["all", "left", "right", "unique"], 1) if leaf == "plugins" else (mp(), ["left", "right", "deep"], 0)
    mode = rng.choice(modes)
    combo = list(rng.choice(SAMPLE))
    if combo[slot] == mode:
        combo[slot] = next(m for m in modes if m != mode)
    mergeat = rng.choice(["/settings/%s", "settings.%s"]) % leaf
    rule = rng.choice(["/settings/%s", "settings.%s"]) % leaf
    as_default = list(combo)
    as_default[slot] = mode
    case = {"lhs": ltext, "rhs": rtext, "mergeat": mergeat, "policies": combo, "rules": {rule: mode}, "kind": "rule-at-merge-point"}
    ctx.evaluations += 1
    ctx.counters["rule_at_merge_point_cases"] = ctx.counters.get("rule_at_merge_point_cases", 0) + 1
    ctx.mark_nontrivial([ltext, rtext, mergeat, rule, mode, combo])
    res = []
    for cmb, kw in ((combo, {"rules": {rule: mode}}), (as_default, {})):
        m = Merger(LOG, yp.load(ltext), MergerConfig(LOG, ns(cmb, mergeat), **kw))
        try:
            m.merge_with(yp.load(rtext))
            res.append(("OK", E.strip_anchors(E.image(m.data)), yp.dump(m.data)[:200]))
        except (MergeException, YAMLPathException) as e:
            res.append(("ERR", None, str(e)[:100]))
        except Exception as e:
            ctx.violation("crash/%s@%s/rule-at-merge-point" % (type(e).__name__, C05.where(e)), {"case": case, "summary": repr(e)[:150]})
            return
    if res[0][:2] != res[1][:2]:
        ctx.violation("differs/rule-at-merge-point/%s" % mode, {"case": case, "summary": "with the rule %r ; with %s as the default %r" % (
            res[0][2], mode, res[1][2])})


def create_under_several_parents_case(ctx, rng):
    """A merge path whose last key(s) are missing under SEVERAL matched parents: each parent gets the path created to hold
    its own copy of the right-hand document; the other members and everything else stay as they were."""
    recs = []
    for i in range(rng.randrange(2, 5)):
        recs.append("{role: %s, n: %d}" % (rng.choice(["web", "web", "db"]), i))
    shape = rng.choice(["aoh", "hoh"])
    ltext = "{hosts: %s, other: [1]}" % ("[%s]" % ", ".join(recs) if shape == "aoh" else "{%s}" % ", ".join("h%d: %s" % (i, r) for i, r in enumerate(recs)))
    rtext = rng.choice(["{tags: [a]}", "[a, b]", "{k: {j: 1}, l: [1, 2]}", "[{id: 1}]", "{a: 1}"])
    # (search segments only: whether a path can be created past a `*` is not something the statement settles)
    sel = rng.choice(["[role=web]", "[n>0]", "[role^w]"]) if shape == "aoh" else rng.choice(["[.^h]", "[.=~/^h/]", "[.!=h0]"])
    tail = rng.choice([["new"], ["new", "deeper"]])
    mergeat = "/hosts/%s/%s" % (sel, "/".join(tail))
    combo = rng.choice(SAMPLE)
    L = yp.load(ltext)
    hosts = L["hosts"]
    members = list(hosts) if shape == "aoh" else list(hosts.values())
    hit = [m for i, m in enumerate(members) if (sel in ("[.^h]", "[.=~/^h/]")) or (sel == "[.!=h0]" and i > 0)
           or (sel in ("[role=web]", "[role^w]") and m["role"] == "web") or (sel == "[n>0]" and m["n"] > 0)]
    if not hit:
        return
    rimg = E.strip_anchors(E.image(yp.load(rtext)))
    want = []
    for m in members:
        img = E.strip_anchors(E.image(m))
        if any(m is h for h in hit):
            sub = rimg
            for k in reversed(tail[1:]):
                sub = {"t": "map", "a": None, "items": [[["str", k], sub]]}
            img["items"].append([["str", tail[0]], sub])
        want.append(img)
    case = {"lhs": ltext, "rhs": rtext, "mergeat": mergeat, "policies": combo, "kind": "create-under-several-parents"}
    ctx.evaluations += 1
    ctx.counters["create_under_several_parents_cases"] = ctx.counters.get("create_under_several_parents_cases", 0) + 1
    if len(hit) >= 2:
        ctx.mark_nontrivial([ltext, rtext, mergeat, combo])
    m = Merger(LOG, L, MergerConfig(LOG, ns(combo, mergeat)))
    try:
        m.merge_with(yp.load(rtext))
    except (MergeException, YAMLPathException) as e:
        ctx.violation("merge-error-for-possible-merge/create-under-several-parents", {"case": case, "summary": str(e)[:200]})
        return
    except Exception as e:
        ctx.violation("crash/%s@%s/create-under-several-parents" % (type(e).__name__, C05.where(e)), {"case": case, "summary": repr(e)[:150]})
        return
    hosts = m.data["hosts"]
    got = [E.strip_anchors(E.image(x)) for x in (list(hosts) if shape == "aoh" else list(hosts.values()))]
    if got != want or E.image(m.data["other"]) != E.image(yp.load("[1]")) or list(m.data.keys()) != ["hosts", "other"]:
        ctx.violation("differs/create-under-several-parents", {"case": case, "summary": "result %r" % yp.dump(m.data)[:300]})


def self_merging_rhs_case(ctx, rng):
    """A right-hand Array-of-Hashes whose records share an identity value (they merge into EACH OTHER under the deep
    Array-of-Hashes policy), aimed at SEVERAL targets: every target must end up as the root merge of its own copy of the
    right-hand document as it was given - not as merging into an earlier target has left it."""
    n = rng.randrange(2, 4)
    ids = [rng.choice("12") for _ in range(rng.randrange(2, 5))]
    recs = ", ".join("{id: %s, v: [%d]%s}" % (i, j, rng.choice(["", ", w: {k%d: %d}" % (j, j)])) for j, i in enumerate(ids))
    shape = rng.choice(["root-aoh", "nested-aoh"])
    if shape == "root-aoh":
        rtext = "[%s]" % recs
        tpool = ["[]", "[{id: 1, v: [9]}]", "[{id: 3}]", "[{id: 2, v: [8]}, {id: 1}]"]
    else:
        rtext = "{recs: [%s]}" % recs
        tpool = ["{}", "{recs: []}", "{recs: [{id: 1, v: [9]}]}", "{o: 1}"]
    ltext = "{s: {%s}, keep: [{id: 1, v: [7]}]}" % ", ".join("t%d: %s" % (i, rng.choice(tpool)) for i in range(n))
    combo = rng.choice([("deep", "all", "deep", "unique"), ("deep", "unique", "deep", "unique"), ("deep", "all", "all", "unique"),
                        ("deep", "all", "unique", "unique")])
    ctx.count("self_merging_rhs_cases")
    run_case(ctx, ltext, rtext, [("KEY", "s"), rng.choice([("ALL",), ("SEARCH", False, "^", ".", "t")])], "multiple", combo)


def empty_lhs_case(ctx, rng):
    """The left-hand document is EMPTY (null): a merge at a path of keys creates that path to hold the right-hand document;
    a merge at the root makes the document the right-hand document."""
    rtext = rng.choice(["{a: [1]}", "[a, b]", "{k: {j: 1}}", "[{id: 1}]", "{a: 1, b: x}"])
    tail = rng.choice([[], ["x"], ["x", "y"], ["x", "y", "z"]])
    mergeat = "/" + "/".join(tail)
    combo = rng.choice(SAMPLE)
    want = E.strip_anchors(E.image(yp.load(rtext)))
    for k in reversed(tail):
        want = {"t": "map", "a": None, "items": [[["str", k], want]]}
    case = {"lhs": "", "rhs": rtext, "mergeat": mergeat, "policies": combo, "kind": "create-in-empty-document"}
    ctx.evaluations += 1
    ctx.counters["empty_lhs_cases"] = ctx.counters.get("empty_lhs_cases", 0) + 1
    ctx.mark_nontrivial(["", rtext, mergeat, combo])
    m = Merger(LOG, None, MergerConfig(LOG, ns(combo, mergeat)))
    try:
        m.merge_with(yp.load(rtext))
    except (MergeException, YAMLPathException) as e:
        ctx.violation("merge-error-for-possible-merge/create-in-empty-document", {"case": case, "summary": str(e)[:200]})
        return
    except Exception as e:
        ctx.violation("crash/%s@%s/create-in-empty-document" % (type(e).__name__, C05.where(e)), {"case": case, "summary": repr(e)[:150]})
        return
    if E.strip_anchors(E.image(m.data)) != want:
        ctx.violation("differs/create-in-empty-document", {"case": case, "summary": "result %r" % (yp.dump(m.data)[:300] if m.data is not None else None,)})


def cli_uncreatable_case(ctx, rng, workdir):
    """yaml-merge --mergeat on a path that one left-hand document can neither match nor create: the run must fail and
    must not write anything out - also when OTHER left-hand documents of a multi-document file would have merged."""
    import os
    from vf.mon import cli
    os.makedirs(workdir, exist_ok=True)
    good = ["a:\n  b: {}\n", "a:\n  b:\n    k: 1\nz: 2\n", "a: {}\n"]
    bad = ["a: 5\n", "a: text\nz: 1\n", "a: true\n"]
    ndocs = rng.choice([1, 2, 3])
    docs = [rng.choice(good) for _ in range(ndocs)]
    ibad = rng.randrange(ndocs)
    docs[ibad] = rng.choice(bad)
    mode = rng.choice(["matrix_merge", "merge_across"]) if ndocs > 1 else rng.choice(["condense_all", "matrix_merge", "merge_across"])
    rdocs = ["x: 1\n"] if mode != "merge_across" else ["x: %d\n" % i for i in range(ndocs)]
    lf, rf, out = (os.path.join(workdir, n) for n in ("l.yaml", "r.yaml", "out.yaml"))
    with open(lf, "w") as f:
        f.write("".join("---\n" + d for d in docs))
    with open(rf, "w") as f:
        f.write("".join("---\n" + d for d in rdocs))
    if os.path.exists(out):
        os.unlink(out)
    to_file = rng.random() < 0.6
    argv = ["-S", "-M", mode, "-m", "/a/b/c"] + (["-o", out] if to_file else []) + [lf, rf]
    case = {"tool": "yaml-merge", "left_documents": docs, "right_documents": rdocs, "argv": argv[:-2], "failing_document": ibad}
    r = cli.run("yaml_merge", argv, sandbox=workdir)
    ctx.evaluations += 1
    ctx.counters["cli_uncreatable_cases"] = ctx.counters.get("cli_uncreatable_cases", 0) + 1
    ctx.mark_nontrivial(["cli-uncreatable", docs, rdocs, mode, to_file])
    if r["exc"]:
        ctx.violation("cli/crash", {"case": case, "summary": r["exc"][:200]})
    elif r["code"] == 0:
        ctx.violation("cli/exit-0-although-a-target-cannot-be-created/%s" % mode, {"case": case, "summary": "stdout %r" % r["out"][:150]})
    elif to_file and os.path.exists(out):
        ctx.violation("cli/partial-write-out/%s" % mode, {"case": case, "summary": "output file written: %r" % open(out).read()[:150]})
    elif not to_file and r["out"].replace("Please try --help for more information.", "").strip():
        ctx.violation("cli/partial-write-out/%s" % mode, {"case": case, "summary": "stdout %r" % r["out"][:150]})


def run_shard(ctx):
    rng = ctx.rng
    import os
    for _ in range(12 if ctx.tier == "quick" else 200):
        cli_uncreatable_case(ctx, rng, os.path.join(os.environ.get("VF_WORKDIR", "/dev/shm"), "c11-%d" % ctx.shard))
    want = SIZES[ctx.tier] // ctx.nshards
    n = 0
    while ctx.evaluations < want:
        if rng.random() < 0.04:
            merge_key_target_case(ctx, rng)
            rule_at_merge_point_case(ctx, rng)
            create_under_several_parents_case(ctx, rng)
            empty_lhs_case(ctx, rng)
            self_merging_rhs_case(ctx, rng)
            continue
        lt = C05.gen_tree(rng, 0, "map")
        if len(lt[1]) < 2:
            continue
        if rng.random() < 0.15:
            lt = dotted_keys(rng, lt)
            ctx.count("docs_with_separator_characters_in_keys")
        ltext = gd.render(lt)
        try:
            L = yp.load(ltext)
        except yp.LoadError:
            continue
        rt = C05.gen_tree(rng, 0, rng.choice(["map", "map", "seq", "aoh", "set", "scalar"]))
        rtext = gd.render(rt)
        combo = rng.choice(SAMPLE)
        sp = straight_paths(L)
        x = rng.random()
        if x < 0.4 and sp:
            segs, node = rng.choice(sp)
            if node is None:
                continue
            if rng.random() < 0.15 and yp.is_container(node):
                # the right-hand document is the target itself with Python-equal scalars of another type (true -> 1,
                # 3 -> 3.0): under a RIGHT policy the target must become it all the same
                rt2 = retyped_flow(node)
                if rt2 is not None:
                    ctx.count("retyped_equal_rhs_cases")
                    run_case(ctx, ltext, rt2, segs, "single", ("right", "right", "right", "right"))
                    continue
            run_case(ctx, ltext, rtext, segs, "single", combo)
        elif x < 0.65:
            base = rng.choice([[]] + [s for s, nd in sp if isinstance(nd, (dict, list)) and not yp.is_set(nd)][:6])
            tailseg = rng.choice([[("ALL",)], [("SEARCH", False, "=~", ".", rng.choice([".", "a", "^[ab]"]))],
                                  [("KEY", rng.choice(["id", "name", "v"]))], [("SEARCH", False, "=", "id", rng.choice("123"))]])
            if rng.random() < 0.3:
                # deep traversal to a key name: the targets are what the path matches in L *before* anything is
                # merged (the right-hand document usually holds that key too)
                tailseg = [("TRAVERSE",), ("KEY", rng.choice(C05.KEYS))]
                ctx.count("traversal_mergeat_cases")
            run_case(ctx, ltext, rtext, list(base) + tailseg, "multiple", combo)
        elif x < 0.85:
            bases = [[]] + [s for s, nd in sp if isinstance(nd, dict) and all(t == "KEY" for t, _ in s)][:6]
            base = rng.choice(bases)
            # (also new keys that hold a separator character: the created node's own path must name THAT key)
            tail = [("KEY", k) for k in rng.sample(["new1", "new2", "zz", "n.w", "p/q", "a.b"], rng.randrange(1, 3))]
            if any(c in k for _t, k in tail for c in "./"):
                ctx.count("created_keys_with_separator_characters")
            run_case(ctx, ltext, rtext, list(base) + tail, "create", combo)
        else:
            scal = [s for s, nd in sp if not yp.is_container(nd) and nd is not None and all(t == "KEY" for t, _ in s)]
            if scal and rng.random() < 0.6:
                run_case(ctx, ltext, rtext, list(rng.choice(scal)) + [("KEY", "x")], "uncreatable", combo)
            else:
                run_case(ctx, ltext, rtext, [("SEARCH", False, "=", "zz", "nomatch")], "uncreatable", combo)
        n += 1
        if n <= 2:
            ctx.sample({"lhs": ltext, "rhs": rtext})


def replay(w):
    c = w["case"]

    class _Ctx:
        def __init__(self):
            self.v, self.evaluations, self.counters = [], 0, {}

        def count(self, *a):
            pass

        def mark_nontrivial(self, *a):
            pass

        def violation(self, m, w):
            self.v.append((m, w["summary"]))
    cx = _Ctx()
    from vf.core.yp import YAMLPath
    return {"violated": None, "note": "re-run with the mergeat path", "case": c}


MANIFEST = {
    "level_text": ("Exploration: 3*10^4 (quick) to 8*10^5 (thorough) real merges directed at a path (existing single / "
                   "existing multiple / creatable / uncreatable targets) x right documents of every root type x policy "
                   "sample; target locations from the independent reference evaluator, per-target expectation from the "
                   "library's own root merge of independent copies, complement compared as a whole-document image."),
    "level_note": "Nested or duplicated targets are skipped (application order would matter); policies themselves are C05's subject.",
    "technique": "runtime frame monitor + twin differential: image outside targets unchanged, each target == root merge of independent copies",
}

"""C08 — path text and parsed segments round-trip in both notations.

By-construction oracle: a segment AST is rendered to text by an independent
renderer (vf.gen.paths: README escaping / demarcation rules), the real parser
must give back exactly those segments.  Then, on the real objects:
canonical string re-parses to the same segments in either notation and is a
fixed point; == agrees with segment equality; append-then-pop restores.
"""
import itertools

from vf.core import yp
from vf.core.yp import YAMLPath, YAMLPathException, PathSeparators
from vf.gen import paths as gp
from yamlpath.enums import PathSegmentTypes, PathSearchMethods, CollectorOperators
from yamlpath.path import SearchTerms, SearchKeywordTerms, CollectorTerms

PROPERTY = "C08"
LEVEL = "exploration"
RULE = ("segment ASTs of every kind (keys/terms over letters, digits and each escapable special . / [ ] ( ) ' \" space ^ $ % "
        "plus & ! = < > ~ , ; indexes; int and text slices; anchors; searches: 9 operators x inversion x attribute x term; "
        "wildcards; * and **; keywords with 0-2 parameters; collectors with nested inner paths and + - & operators): "
        "exhaustive for <=2 segments over a reduced alphabet (thorough) and random up to 6 segments; rendered with "
        "backslash escapes or quote demarcation, optional spaces, in dot and slash notation. Non-trivial = an AST with "
        ">=1 segment; distinct by the dot rendering")
ASSUMPTIONS = ["renderings whose meaning the README does not fix are not generated: a quote inside the other kind of quote, "
               "* inside keys, regex terms containing every candidate delimiter, the empty key",
               "segment equality is judged on the escaped segments: kind + text/index + search terms + keyword parameters + collector operator and inner path"]
REACH = [("yamlpath/yamlpath.py", "__eq__,__add__,append,pop", "__eq__/__add__/append/pop"),
         ("yamlpath/yamlpath.py", "_parse_path,_expand_splats,_stringify_yamlpath_segments", "_parse_path/_expand_splats/_stringify"),
         ("yamlpath/path/searchterms.py", "__str__", "SearchTerms.__str__"),
         ("yamlpath/path/searchkeywordterms.py", "parameters", "SearchKeywordTerms.parameters")]
EXHAUSTIVE_NOTE = "all segment sequences of length <=2 over the reduced segment list (thorough tier)"
SIZES = {"quick": dict(grid_stride=6, rnd=60000), "thorough": dict(grid_stride=1, rnd=1500000)}
REQUIRED_COUNTERS = ["separator_switch_checked", "object_reuse_checked", "parse_checked", "canonical_checked", "eq_checked", "append_pop_checked"]

METHOD = {"=": "EQUALS", "^": "STARTS_WITH", "$": "ENDS_WITH", "%": "CONTAINS", ">": "GREATER_THAN",
          "<": "LESS_THAN", ">=": "GREATER_THAN_OR_EQUAL", "<=": "LESS_THAN_OR_EQUAL", "=~": "REGEX"}
COLLOP = {"": "NONE", "+": "ADDITION", "-": "SUBTRACTION", "&": "INTERSECTION"}
SPECIAL_CHARS = list(". / [ ] ( ) ' \" ^ $ % \\".split()) + [" "]       # a backslash is key text too (it must survive next to every other one)
EXTRA_CHARS = list("& ! = < > ~ , : -".split())


# ---- expected canonical form from the AST ------------------------------------------
def expect(segs):
    out = []
    for s in segs:
        t = s[0]
        if t == "KEY":
            out.append(("KEY", s[1]))
        elif t == "INDEX":
            out.append(("INDEX", s[1]))
        elif t == "SLICE":
            out.append(("INDEX", "%d:%d" % (s[1], s[2])))
        elif t == "HSLICE":
            out.append(("INDEX", "%s:%s" % (s[1], s[2])))
        elif t == "ANCHOR":
            out.append(("ANCHOR", s[1]))
        elif t == "SEARCH":
            out.append(("SEARCH", (s[1], METHOD[s[2]], s[3], s[4])))
        elif t == "WILD":
            from vf.model.pathsem import expand_wild
            e = expand_wild(s[1])
            out.append(("SEARCH", (e[1], METHOD[e[2]], e[3], e[4])))
        elif t == "ALL":
            out.append(("MATCH_ALL", None))
        elif t == "TRAVERSE":
            out.append(("TRAVERSE", None))
        elif t == "KW":
            out.append(("KEYWORD_SEARCH", (s[1], s[2].upper(), tuple(s[3]))))
        elif t == "COLL":
            out.append(("COLLECTOR", (COLLOP[s[1]], tuple(expect(s[2])))))
    return out


def canon(segments, unescaped=None):
    """Canonical form of parsed (escaped) segments.  A collector's inner path is taken from the
    *unescaped* parse (that is what the processor evaluates; the escaped form drops inner escapes)."""
    out = []
    un = list(unescaped) if unescaped is not None else None
    for i, (t, a) in enumerate(segments):
        name = t.name
        if isinstance(a, SearchTerms):
            out.append((name, (a.inverted, a.method.name, a.attribute, a.term)))
        elif isinstance(a, SearchKeywordTerms):
            out.append((name, (a.inverted, a.keyword.name, tuple(a.parameters))))
        elif isinstance(a, CollectorTerms):
            expr = a.expression
            if un is not None and i < len(un) and isinstance(un[i][1], CollectorTerms):
                expr = un[i][1].expression
            ip = YAMLPath(expr)
            out.append((name, (a.operation.name, tuple(canon(ip.escaped, ip.unescaped)))))
        else:
            out.append((name, a))
    return out


def parse(text, sep=PathSeparators.AUTO):
    p = YAMLPath(text, sep)
    return canon(p.escaped, p.unescaped)


# ---- generators ------------------------------------------------------------------------
def word(rng, specials=True, extra=False, minlen=1):
    n = rng.randrange(minlen, 5)
    out = []
    for _ in range(n):
        x = rng.random()
        if specials and x < 0.3:
            out.append(rng.choice(SPECIAL_CHARS))
        elif extra and x < 0.4:
            out.append(rng.choice(EXTRA_CHARS))
        else:
            out.append(rng.choice("abk019"))
    w = "".join(out)
    return w


def gen_key(rng):
    for _ in range(20):
        w = word(rng)
        if "*" in w or not w.strip() or w[0] in "&" and False:
            continue
        if "'" in w and '"' in w:
            continue
        return w
    return "k"


def gen_term(rng, op, depth=0):
    if op == "=~":
        for _ in range(20):
            t = rng.choice(["a", "^a", "b$", "a.b", "x/y", "[0-9]+", "a|b", "^$", "(a)", "a b", "\\.", "x_y", "a#b", "x/y|z",
                            "^/(usr|opt)/", "a/b|c#d", "/|#"])
            if depth and (" " in t or "(" in t or "[" in t):
                continue        # inside a collector the outer parser is not regex-aware: not generated
            return t
    if depth == 0 and rng.random() < 0.12:
        # terms holding quote marks, also as their first / last character (rendered quote-demarcated by style "qt")
        return rng.choice(['say "hi"', '"q"', "5'", "'a", 'a"b', "it's", '"', "x'y'", 'end"'])
    for _ in range(20):
        w = word(rng)
        if "'" in w or '"' in w or not w.strip():
            continue
        if w != w.strip():
            continue
        return w
    return "t"


def gen_seg(rng, depth=0):
    x = rng.random()
    if x < 0.3:
        return ("KEY", gen_key(rng))
    if x < 0.38:
        return ("INDEX", rng.choice([0, 1, 7, -1, 12, -30]))
    if x < 0.43:
        return ("SLICE", rng.choice([0, 1, -2]), rng.choice([0, 2, 5, -1]))
    if x < 0.46:
        return ("HSLICE", rng.choice(["a", "b0", "k"]), rng.choice(["b", "z", "k9"]))
    if x < 0.52:
        return ("ANCHOR", rng.choice(["anc", "A1", "x_y", "a-b"]))
    if x < 0.74:
        op = rng.choice(gp.OPS)
        attr = rng.choice([".", ".", "a", "k9", "a.b", "name"])
        return ("SEARCH", rng.random() < 0.3, op, attr, gen_term(rng, op, depth))
    if x < 0.78:
        return ("WILD", rng.choice(["a*", "*a", "a*b", "k*9", "*0"]))
    if x < 0.83:
        return ("ALL",)
    if x < 0.87:
        return ("TRAVERSE",)
    if x < 0.95 or depth >= 2:
        kw = rng.choice(gp.KEYWORDS)
        np_ = rng.choice([0, 1, 1, 2])
        params = [rng.choice(["a", "k9", "name", "0", "2", "x_y"]) for _ in range(np_)]
        return ("KW", rng.random() < 0.3, kw, params)
    inner = gen_path(rng, rng.choice([1, 2]), depth + 1)
    return ("COLL", "", inner)


def gen_path(rng, n=None, depth=0):
    n = n or rng.choice([1, 2, 2, 3, 3, 4, 5, 6])
    segs = []
    for _ in range(n):
        s = gen_seg(rng, depth)
        if s[0] == "COLL":
            # an operator collector may only follow a collector
            segs.append(s)
            while rng.random() < 0.5 and len(segs) < n + 2:
                segs.append(("COLL", rng.choice(["+", "-", "&"]), gen_path(rng, rng.choice([1, 2]), depth + 1)))
            continue
        segs.append(s)
    return segs


def reduced():
    segs = [("KEY", k) for k in ["a", "b.c", "d/e", "f g", "0", "h[i]", "j'k", 'l"m', "n(o)", "p^q$r%s"]]
    segs += [("INDEX", 0), ("INDEX", -1), ("SLICE", 0, 2), ("HSLICE", "a", "b"), ("ANCHOR", "anc")]
    for op in gp.OPS:
        segs.append(("SEARCH", False, op, ".", "a" if op != "=~" else "^a"))
        segs.append(("SEARCH", True, op, "k", "b c" if op != "=~" else "x/y"))
    segs += [("WILD", "a*"), ("WILD", "*a"), ("WILD", "a*b"), ("ALL",), ("TRAVERSE",)]
    segs += [("KW", False, "has_child", ["a"]), ("KW", True, "has_child", ["a"]), ("KW", False, "name", []),
             ("KW", False, "max", ["k"]), ("KW", True, "min", []), ("KW", False, "parent", ["2"]),
             ("KW", False, "unique", []), ("KW", False, "distinct", ["k"])]
    segs += [("COLL", "", [("KEY", "a")]), ("COLL", "", [("KEY", "a"), ("INDEX", 0)])]
    return segs


def render_variant(rng, segs, sep):
    style = rng.choice(["bs", "bs", "q", "qt", "min", "min"])
    text = gp.render(segs, sep, style=style)
    return text


def mutate_ast(rng, segs):
    segs = list(segs)
    i = rng.randrange(len(segs))
    s = segs[i]
    specials = [j for j, c in enumerate(s[1]) if c in "./[]()'\" &"] if s[0] == "KEY" and isinstance(s[1], str) else []
    if s[0] == "KEY" and specials and rng.random() < 0.5:
        # the same key with a LITERAL backslash in front of one of its special characters: another key
        j = rng.choice(specials)
        segs[i] = ("KEY", s[1][:j] + "\\" + s[1][j:])
    elif s[0] == "KEY":
        segs[i] = ("KEY", s[1] + "x")
    elif s[0] == "INDEX":
        segs[i] = ("INDEX", s[1] + 1)
    elif s[0] == "SEARCH" and s[2] != "=~" and isinstance(s[4], str) and " " in s[4] and rng.random() < 0.5:
        # the same term with a LITERAL backslash in front of a blank: another term
        j = s[4].index(" ")
        segs[i] = tuple(s[:4]) + (s[4][:j] + "\\" + s[4][j:],) + tuple(s[5:])
    elif s[0] == "SEARCH":
        segs[i] = ("SEARCH", not s[1]) + tuple(s[2:])
    elif s[0] == "ANCHOR":
        # another anchor - or a *key* that is spelled like this anchor reference (\&name)
        segs[i] = ("ANCHOR", s[1] + "x") if rng.random() < 0.5 else ("KEY", "&" + s[1])
    elif s[0] == "KEY" and s[1].startswith("&") and len(s[1]) > 1 and s[1][1:].isalnum() and rng.random() < 0.5:
        segs[i] = ("ANCHOR", s[1][1:])
    elif s[0] == "KW":
        segs[i] = ("KW", s[1], s[2], list(s[3]) + ["zz"]) if len(s[3]) < 2 and s[2] not in ("name",) else ("KEY", "zz")
    else:
        segs[i] = ("KEY", "zz")
    return segs


# ---- the check of one AST ------------------------------------------------------------------
def check_ast(ctx, rng, segs, do_eq=True):
    exp = expect(segs)
    case = {"segs": segs}
    texts = {}
    for sep in (".", "/"):
        try:
            t = render_variant(rng, segs, sep)
        except ValueError:
            return
        if sep == "." and t.startswith("/"):
            return            # excluded by the notation's own definition
        texts[sep] = t
    case["dot"], case["slash"] = texts["."], texts["/"]
    ctx.mark_nontrivial(texts["."])
    paths = {}
    for sep, t in texts.items():
        ctx.evaluations += 1
        ctx.counters["parse_checked"] = ctx.counters.get("parse_checked", 0) + 1
        try:
            got = parse(t)
        except YAMLPathException as e:
            ctx.violation("parse-rejects/%s" % segs[-1][0], {"case": case, "summary": "%r rejected: %s" % (t, str(e)[:120])})
            return
        except Exception as e:
            ctx.violation("parse-crash/%s" % type(e).__name__, {"case": case, "summary": "%r: %r" % (t, e)})
            return
        if got != exp:
            ctx.violation("parse-differs/%s/%s" % ("dot" if sep == "." else "slash", first_diff_kind(exp, got)), {
                "case": case, "summary": "%r parsed to %r, rendered from %r" % (t, got, exp)})
            return
        paths[sep] = YAMLPath(t)
    # canonical string: re-parse in either notation, fixed point
    for sep, p in paths.items():
        ctx.evaluations += 1
        ctx.counters["canonical_checked"] = ctx.counters.get("canonical_checked", 0) + 1
        try:
            s1 = str(p)
            if parse(s1) != exp:
                ctx.violation("canonical-reparse-differs/%s" % first_diff_kind(exp, parse(s1)), {
                    "case": case, "summary": "str(%r) = %r parses to %r" % (texts[sep], s1, parse(s1))})
                continue
            if str(YAMLPath(s1)) != s1:
                ctx.violation("canonical-not-fixed-point", {
                    "case": case, "summary": "str(%r)=%r then %r" % (texts[sep], s1, str(YAMLPath(s1)))})
            q = YAMLPath(p)
            q.separator = PathSeparators.FSLASH if sep == "." else PathSeparators.DOT
            s2 = str(q)
            if not (sep == "/" and s2.startswith("/")):
                got2 = parse(s2)
                if got2 != exp:
                    ctx.violation("canonical-other-notation-differs/%s" % first_diff_kind(exp, got2), {
                        "case": case, "summary": "%r -> other notation %r parses to %r" % (texts[sep], s2, got2)})
            # a path that has been parsed and then shown in the other notation is still the same path: it equals a fresh
            # parse of its text, and a copy of it has its segments
            used = YAMLPath(texts[sep])
            _ = (list(used.escaped), str(used))
            used.separator = PathSeparators.FSLASH if sep == "." else PathSeparators.DOT
            ctx.counters["separator_switch_checked"] = ctx.counters.get("separator_switch_checked", 0) + 1
            cp = YAMLPath(used)
            if canon(cp.escaped, cp.unescaped) != exp:
                ctx.violation("copy-differs-after-separator-switch", {"case": case, "summary": "a copy of YAMLPath(%r) shown as %r has "
                              "segments %r" % (texts[sep], str(used), canon(cp.escaped, cp.unescaped))})
            elif not (used == YAMLPath(texts[sep])) or (used != YAMLPath(texts[sep])):
                ctx.violation("eq-false-after-separator-switch", {"case": case, "summary": "YAMLPath(%r), shown as %r, != a fresh "
                              "YAMLPath of the same text" % (texts[sep], str(used))})
        except YAMLPathException as e:
            ctx.violation("canonical-rejected", {"case": case, "summary": "%r: %s" % (texts[sep], str(e)[:150])})
        except Exception as e:
            ctx.violation("canonical-crash/%s" % type(e).__name__, {"case": case, "summary": "%r: %r" % (texts[sep], e)})
    # equality
    if do_eq:
        ctx.evaluations += 1
        ctx.counters["eq_checked"] = ctx.counters.get("eq_checked", 0) + 1
        try:
            if not (paths["."] == paths["/"]) or (paths["."] != paths["/"]):
                ctx.violation("eq-false-for-equal-segments", {
                    "case": case, "summary": "YAMLPath(%r) == YAMLPath(%r) is False" % (texts["."], texts["/"])})
            m = mutate_ast(rng, segs)
            if expect(m) != exp:
                mt = gp.render(m, rng.choice([".", "/"]))
                if not mt.startswith("/") or True:
                    try:
                        if parse(mt) == expect(m) and (YAMLPath(mt) == paths["."]):
                            ctx.violation("eq-true-for-different-segments", {
                                "case": case, "summary": "YAMLPath(%r) == YAMLPath(%r) is True" % (mt, texts["."])})
                    except YAMLPathException:
                        pass
        except ValueError:
            pass
        except Exception as e:
            ctx.violation("eq-crash/%s" % type(e).__name__, {"case": case, "summary": repr(e)})
    # append then pop
    last = segs[-1]
    if last[0] in ("KEY", "INDEX", "SEARCH", "ALL", "TRAVERSE", "ANCHOR") and len(segs) >= 1:
        for sep in (".", "/"):
            ctx.evaluations += 1
            ctx.counters["append_pop_checked"] = ctx.counters.get("append_pop_checked", 0) + 1
            try:
                base_text = gp.render(segs[:-1], sep) if len(segs) > 1 else ""
                if sep == "." and base_text.startswith("/"):
                    continue
                if last[0] == "ANCHOR":
                    segtext = "[&%s]" % last[1]
                else:
                    # the segment as the library itself prints it (pop() works on the canonical text)
                    one = YAMLPath(gp.render([last], sep))
                    segtext = str(one)
                    if sep == "/" and segtext.startswith("/"):
                        segtext = segtext[1:]
                    if last[0] == "SEARCH" and last[2] == "=~" and "/" in last[4]:
                        continue
                    if base_text.endswith("\\/") or base_text.endswith("\\."):
                        ctx.count("append_pop_base_ends_in_escaped_separator_skipped")
                        continue
                base = YAMLPath(base_text)
                before = canon(base.escaped, base.unescaped)
                work = YAMLPath(base_text)
                used_first = rng.random() < 0.5
                if used_first:
                    # the object has been *used* (parsed) before it is changed: every view of it must follow the change
                    _ = (len(work), list(work.escaped), list(work.unescaped), str(work))
                    ctx.counters["object_reuse_checked"] = ctx.counters.get("object_reuse_checked", 0) + 1
                work.append(segtext)
                fresh = YAMLPath(work.original)
                if (canon(work.escaped, work.unescaped) != canon(fresh.escaped, fresh.unescaped) or len(work) != len(fresh)
                        or str(work) != str(fresh)):
                    ctx.violation("object-state-stale/append", {"case": case, "summary": "after append(%r) to a %s path object: escaped %r, "
                                  "len %d, str %r ; a fresh parse of its text %r gives %r" % (
                                      segtext, "used" if used_first else "fresh", canon(work.escaped, work.unescaped)[-2:], len(work),
                                      str(work), work.original, canon(fresh.escaped, fresh.unescaped)[-2:])})
                    continue
                if canon(work.escaped, work.unescaped) != exp:
                    continue       # append of this text is not this one segment here: not judged
                want_pop = canon([work.unescaped[-1]])
                popped = work.pop()
                after = canon(work.escaped, work.unescaped)
                pc = canon([popped])
                if after != before:
                    ctx.violation("append-pop-does-not-restore/%s" % last[0], {
                        "case": case, "summary": "%r + %r then pop -> %r (text %r)" % (base_text, segtext, after, work.original)})
                elif pc != want_pop:
                    ctx.violation("pop-returns-other-segment/%s" % last[0], {
                        "case": case, "summary": "popped %r expected %r" % (pc, want_pop)})
                elif not (work == base):
                    ctx.violation("append-pop-not-equal/%s" % last[0], {
                        "case": case, "summary": "%r != %r after append+pop" % (work.original, base_text)})
                else:
                    # re-pointing a used object at another text
                    other = texts["."] if sep == "." else texts["/"]
                    work.original = other
                    fresh = YAMLPath(other)
                    if canon(work.escaped, work.unescaped) != canon(fresh.escaped, fresh.unescaped) or len(work) != len(fresh):
                        ctx.violation("object-state-stale/original-setter", {"case": case, "summary": "after .original = %r the object "
                                      "still answers %r" % (other, canon(work.escaped, work.unescaped)[-2:])})
            except YAMLPathException:
                ctx.count("append_pop_yamlpath_error")
            except ValueError:
                pass
            except Exception as e:
                ctx.violation("append-pop-crash/%s" % type(e).__name__, {"case": case, "summary": repr(e)})


def popped_escaped(seg):
    """pop() returns an *unescaped* segment: strip backslashes of a key for comparison."""
    t, a = seg
    if isinstance(a, str):
        out, esc = [], False
        for ch in a:
            if esc:
                out.append(ch)
                esc = False
            elif ch == "\\":
                esc = True
            else:
                out.append(ch)
        return (t, "".join(out))
    return seg


def kinds(segs):
    return ".".join(s[0] for s in segs[:4])


def first_diff_kind(exp, got):
    for e, g in zip(exp, got):
        if e != g:
            return "%s->%s" % (e[0], g[0])
    return "length %d->%d" % (len(exp), len(got))


SEEDS = [
    [("KEY", "a.b")], [("KEY", "a"), ("SEARCH", False, "=~", ".", "x/y")], [("KEY", "c"), ("ANCHOR", "A")],
    [("KEY", "a b"), ("KEY", "c/d")], [("SEARCH", True, "=", "k", "b c")], [("KW", True, "has_child", ["a"])],
    [("COLL", "", [("KEY", "a")]), ("COLL", "-", [("KEY", "b"), ("INDEX", 0)])], [("KEY", "p^q$r%s")],
]


def run_shard(ctx):
    rng = ctx.rng
    sz = SIZES[ctx.tier]
    if ctx.shard == 0:
        for segs in SEEDS:
            check_ast(ctx, rng, segs)
            ctx.sample({"segs": segs, "dot": gp.render(segs, ".")})
    red = reduced()
    grid = [[s] for s in red] + [[a, b] for a, b in itertools.product(red, red)]
    stride = sz["grid_stride"]
    for i, segs in enumerate(grid):
        if i % ctx.nshards != ctx.shard:
            continue
        if ((i // ctx.nshards) + ctx.seed) % stride:
            continue
        if len(segs) == 2 and segs[0][0] == "TRAVERSE" and segs[1][0] == "TRAVERSE":
            pass
        check_ast(ctx, rng, segs)
        ctx.count("grid_cases")
    for i in range(sz["rnd"] // ctx.nshards):
        segs = gen_path(rng)
        check_ast(ctx, rng, segs)
        if i < 2:
            try:
                ctx.sample({"segs": segs, "dot": gp.render(segs, ".")})
            except ValueError:
                pass


def finish(merged):
    if merged["tier"] == "thorough":
        merged["exhaustive"] = True


def replay(w):
    import random
    c = w["case"]

    def tup(x):
        return tuple(tup(y) if isinstance(y, list) and y and isinstance(y[0], (list, str)) and False else y for y in x)
    segs = [tuple(s) for s in c["segs"]]

    class _Ctx:
        def __init__(self):
            self.v, self.evaluations, self.counters = [], 0, {}

        def count(self, *a):
            pass

        def mark_nontrivial(self, *a):
            pass

        def violation(self, m, w):
            self.v.append((m, w["summary"]))
    cx = _Ctx()
    segs = [fix_nested(s) for s in segs]
    check_ast(cx, random.Random(0), segs)
    return {"violated": bool(cx.v), "found": cx.v}


def fix_nested(s):
    if s[0] == "COLL":
        return ("COLL", s[1], [fix_nested(tuple(x)) for x in s[2]])
    return tuple(s)


MANIFEST = {
    "level_text": ("Exploration with an exhaustive grid (thorough): every segment sequence of length <=2 over a reduced "
                   "list covering every segment kind, plus 10^5-10^6 random sequences of up to 6 segments with specials "
                   "in keys/terms; the oracle is by construction (the AST that was rendered), followed by model-free "
                   "round-trip / fixed-point / equality / append-pop invariants on the real YAMLPath objects."),
    "level_note": ("The renderer is mine (README rules); forms the README leaves open are not generated. Equality is "
                   "compared on escaped segments."),
    "technique": "runtime round-trip monitor: render(AST) -> real parser -> compare; str/reparse/fixed-point/==/append-pop invariants",
}

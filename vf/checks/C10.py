"""C10 — anchor conflicts in a merge follow the chosen policy and the result reloads.

Twin differential.  Both documents are generated as trees with scalar anchors
and aliases from a shared name pool.  The expectation for the *data* is the
library's own merge of the anchor-expanded twins after substituting, per
policy, the winning value into the losing document's alias sites (rename: no
substitution), so this check does not lean on the C05 reference merge.  The
*graph* is checked on the live result: per anchor name one value, dump
succeeds, the strict loader reloads it to the same data.
"""
from types import SimpleNamespace

from vf.core import yp
from vf.core.yp import LOG, YAMLPathException
from vf.gen import docs as gd
from yamlpath.merger import Merger, MergerConfig
from yamlpath.merger.exceptions import MergeException

PROPERTY = "C10"
LEVEL = "exploration"
RULE = ("pairs of documents (maps with nested maps/lists) defining and aliasing scalar anchors from the pool {A1, A2, A3} "
        "(optionally pre-existing A1_1 / A2_1 / A1_2 in either document to provoke rename collisions), values from a small "
        "pool in several spellings (x 'x' \"x\", 1 0x1 '1', true) so that equal-name/"
        "equal-value, equal-name/different-value and disjoint cases all occur; x anchor policies {stop, left, right, "
        "rename} x a sample of the C05 merge policies; also three to five documents absorbed in turn by one Merger, compared "
        "with a fresh Merger per step. Non-trivial = at least one anchor name is defined in both "
        "documents; distinct by (L, R, anchor policy, merge policies)")
ASSUMPTIONS = ["scalar anchors only (the statement's scope); anchors are defined before they are aliased",
               "the data expectation uses the library's own merge on anchor-free twins: a defect common to both would be missed here (C05 covers merge policies)"]
REACH = [("yamlpath/merger/merger.py", "_resolve_anchor_conflicts,_calc_unique_anchor", "Merger._resolve_anchor_conflicts/_calc_unique_anchor"),
         ("yamlpath/common/anchors.py", "scan_for_anchors,rename_anchor,replace_anchor", "Anchors.scan/rename/replace")]
SIZES = {"quick": 30000, "thorough": 800000}
REQUIRED_COUNTERS = ["conflict_cases", "equal_value_cases", "reload_checked", "stop_refused", "equal_value_other_spelling_cases",
                     "rhs_defines_rename_target_name", "sequence_cases", "anchored_key_cases", "multi_target_cases"]
VALS = ["x", "y", "1", "2", "'x'", '"x"', "0x1", "'1'", '"y"', "0x2", "true", "''", "false", "0.0"]     # falsy values too
NAMES = ["A1", "A2", "A3"]
EXTRA_NAMES = ["A1_1", "A2_1", "A1_2"]       # what a rename of A1 / A2 would like to call itself


def canon(text):
    """The value a scalar spelling denotes (the spelling - quotes, number base - is not data)."""
    if text[:1] in "'\"":
        return ("str", text[1:-1])
    if text.startswith("0x"):
        return ("int", int(text, 16))
    if text.isdigit():
        return ("int", int(text))
    if text.replace(".", "", 1).isdigit():
        return ("float", float(text))
    if text in ("true", "false"):
        return ("bool", text == "true")
    return ("str", text)
KEYS = ["a", "b", "c", "d", "e"]
POLICIES = ["stop", "left", "right", "rename"]
MERGE_SAMPLE = [("deep", "all", "all", "unique"), ("deep", "unique", "deep", "unique"), ("deep", "all", "unique", "left"),
                ("right", "right", "right", "right"), ("left", "left", "left", "left"), ("deep", "right", "deep", "unique")]


def gen(rng, extra_name=False):
    """Tree with scalar anchors/aliases; returns (tree, {name: valuetext}).  Mappings may themselves be anchored (under a
    name no other document uses) and aliased: scalar anchors are then also found *inside* anchored containers."""
    defined = {}
    cnames = []
    ctag = "M%d" % rng.randrange(10 ** 6)

    def scalar():
        x = rng.random()
        if defined and x < 0.3:
            return ("ali", rng.choice(sorted(defined)))
        free = [n for n in NAMES + (EXTRA_NAMES if extra_name else []) if n not in defined]
        if free and x < 0.6:
            n = rng.choice(free)
            v = rng.choice(VALS)
            defined[n] = v
            return ("anc", n, ("s", v))
        return ("s", rng.choice(VALS + ["z"]))

    def node(depth):
        x = rng.random()
        if depth >= 2 or x < 0.5:
            return scalar()
        if x < 0.8:
            m = ("map", [(k, node(depth + 1)) for k in rng.sample(KEYS, rng.randrange(1, 4))])
            if rng.random() < 0.25:
                name = "%s_%d" % (ctag, len(cnames))
                cnames.append(name)
                return ("anc", name, m)
            return m
        # list elements: scalars, or lists again (aliases inside an Array nested directly in an Array)
        return ("seq", [scalar() if rng.random() < 0.75 else ("seq", [scalar() for _ in range(rng.randrange(1, 3))])
                        for _ in range(rng.randrange(1, 4))])
    items = [(k, node(1)) for k in rng.sample(KEYS, rng.randrange(2, 5))]
    # (anchored mappings are not aliased here: an aliased container is ONE node, so a merge into it shows at every alias -
    # which the anchor-expanded twin cannot express)
    t = ("map", items)
    return t, defined


def container_defs(t, out=None):
    out = {} if out is None else out
    if t[0] == "anc" and t[2][0] != "s":
        out[t[1]] = t[2]
        container_defs(t[2], out)
    elif t[0] == "map":
        for _k, v in t[1]:
            container_defs(v, out)
    elif t[0] == "seq":
        for v in t[1]:
            container_defs(v, out)
    return out


def expand(t, defs, subst, cdefs=None):
    """Anchor-free copy: aliases replaced by the defining value, or by subst[name] when given."""
    if cdefs is None:
        cdefs = container_defs(t)
    k = t[0]
    if k == "anc" and t[2][0] != "s":
        return expand(t[2], defs, subst, cdefs)
    if k == "ali" and t[1] in cdefs:
        return expand(cdefs[t[1]], defs, subst, cdefs)
    if k == "anc":
        return ("s", subst.get(t[1], t[2][1]))
    if k == "ali":
        return ("s", subst.get(t[1], defs[t[1]]))
    if k == "map":
        return ("map", [(key, expand(v, defs, subst, cdefs)) for key, v in t[1]])
    if k == "seq":
        return ("seq", [expand(v, defs, subst, cdefs) for v in t[1]])
    return t


def anchored_nodes(data, out=None):
    """name -> list of distinct node objects carrying that anchor name, anywhere in the live tree."""
    out = {} if out is None else out
    seen = set()

    def walk(n):
        a = yp.anchor_of(n)
        if a and id(n) not in seen:
            seen.add(id(n))
            out.setdefault(a, []).append(n)
        if isinstance(n, dict):
            for k, v in n.items():
                walk(k)
                walk(v)
        elif isinstance(n, list) and not yp.is_set(n):
            for e in n:
                walk(e)
    walk(data)
    return out


def merge(ltext, rtext, anchors, combo, mergeat=None):
    L, R = yp.load(ltext), yp.load(rtext)
    ns = SimpleNamespace(hashes=combo[0], arrays=combo[1], aoh=combo[2], sets=combo[3], anchors=anchors)
    if mergeat:
        ns.mergeat = mergeat
    cfg = MergerConfig(LOG, ns)
    m = Merger(LOG, L, cfg)
    m.merge_with(R)
    return m.data


def run_case(ctx, lt, ldefs, rt, rdefs, policy, combo):
    ltext, rtext = gd.render(lt), gd.render(rt)
    case = {"lhs": ltext, "rhs": rtext, "anchors": policy, "policies": combo}
    both = [n for n in ldefs if n in rdefs]
    conflicts = [n for n in both if canon(ldefs[n]) != canon(rdefs[n])]
    if any(ldefs[n] != rdefs[n] for n in both if n not in conflicts):
        ctx.count("equal_value_other_spelling_cases")
    if any(n in EXTRA_NAMES for n in rdefs):
        ctx.count("rhs_defines_rename_target_name")
    ctx.evaluations += 1
    if both:
        ctx.mark_nontrivial([ltext, rtext, policy, combo])
    if conflicts:
        ctx.counters["conflict_cases"] = ctx.counters.get("conflict_cases", 0) + 1
    elif both:
        ctx.counters["equal_value_cases"] = ctx.counters.get("equal_value_cases", 0) + 1
    try:
        got = merge(ltext, rtext, policy, combo)
        raised = None
    except (MergeException, YAMLPathException) as e:
        raised = e
    except yp.LoadError:
        return
    except Exception as e:
        ctx.violation("crash/%s" % type(e).__name__, {"case": case, "summary": "%s: %s" % (type(e).__name__, str(e)[:150])})
        return
    # ---- expectation on anchor-free twins ------------------------------------------------------
    lsub, rsub = {}, {}
    if policy == "left":
        rsub = {n: ldefs[n] for n in conflicts}
    elif policy == "right":
        lsub = {n: rdefs[n] for n in conflicts}
    le, re_ = gd.render(expand(lt, ldefs, lsub)), gd.render(expand(rt, rdefs, rsub))
    try:
        exp = merge(le, re_, "stop", combo)
        exp_err = None
    except (MergeException, YAMLPathException) as e:
        exp, exp_err = None, e
    except Exception:
        ctx.count("twin_merge_crashed")
        return
    if policy == "stop" and conflicts:
        if raised is None:
            ctx.violation("stop-did-not-refuse", {"case": case, "summary": "conflicting anchors %r merged" % conflicts})
        else:
            ctx.counters["stop_refused"] = ctx.counters.get("stop_refused", 0) + 1
        return
    if raised is not None:
        if exp_err is None:
            ctx.violation("refused-without-conflict/%s" % policy, {
                "case": case, "summary": "raised %s ; conflicts=%r both=%r" % (str(raised)[:120], conflicts, both)})
        return
    if exp_err is not None:
        ctx.count("twin_refused_but_real_merged")
        return
    a, b = yp.plain(got), yp.plain(exp)
    if norm(a) != norm(b):
        ctx.violation("data-differs/%s" % policy, {"case": case, "summary": "merged %r ; expanded-twin merge %r" % (
            yp.dump(got)[:300], yp.dump(exp)[:300])})
        return
    # ---- graph -------------------------------------------------------------------------------------
    names = anchored_nodes(got)
    for n, nodes in names.items():
        vals = {repr(yp.scalar_plain(x)) if not yp.is_container(x) else "container" for x in nodes}
        if len(vals) > 1:
            ctx.violation("one-name-two-values/%s" % policy, {"case": case, "summary": "anchor %s holds %r ; dump=%r" % (
                n, sorted(vals), yp.dump(got)[:300])})
            return
    try:
        text = yp.dump(got)
    except Exception as e:
        ctx.violation("dump-raises/%s" % type(e).__name__, {"case": case, "summary": repr(e)[:200]})
        return
    try:
        back = yp.load(text)
    except yp.LoadError as e:
        ctx.violation("does-not-reload/%s" % policy, {"case": case, "summary": "%r: %s" % (text[:300], str(e)[:100])})
        return
    ctx.counters["reload_checked"] = ctx.counters.get("reload_checked", 0) + 1
    if norm(yp.plain(back)) != norm(a):
        ctx.violation("reload-differs/%s" % policy, {"case": case, "summary": "dump %r reloads differently" % text[:300]})
    if policy == "rename" and conflicts:
        # both values are kept: the renamed anchor must not land on a name either document already used
        before = set(ldefs) | set(rdefs)
        new = [n for n in names if n not in before]
        for c in conflicts:
            ctx.count("rename_cases")
        if len(set(names)) < len(set(ldefs) | set(rdefs)) and False:
            pass


def run_sequence(ctx, texts, policy, combo):
    """ONE Merger absorbing several right-hand documents in turn must end where a fresh Merger per step ends
    (each step resolves anchor conflicts against the document accumulated so far)."""
    case = {"lhs": texts[0], "rhs_sequence": texts[1:], "anchors": policy, "policies": combo}
    ns = SimpleNamespace(hashes=combo[0], arrays=combo[1], aoh=combo[2], sets=combo[3], anchors=policy)
    ctx.evaluations += 1
    ctx.counters["sequence_cases"] = ctx.counters.get("sequence_cases", 0) + 1
    try:
        acc = yp.load(texts[0])
        for t in texts[1:]:
            m = Merger(LOG, acc, MergerConfig(LOG, ns))
            m.merge_with(yp.load(t))
            acc = m.data
        exp, exp_err = acc, None
    except (MergeException, YAMLPathException) as e:
        exp, exp_err = None, e
    except yp.LoadError:
        return
    except Exception:
        ctx.count("stepwise_fold_crashed")
        return
    try:
        m = Merger(LOG, yp.load(texts[0]), MergerConfig(LOG, ns))
        for t in texts[1:]:
            m.merge_with(yp.load(t))
        got, raised = m.data, None
    except (MergeException, YAMLPathException) as e:
        got, raised = None, e
    except Exception as e:
        ctx.violation("sequence/crash/%s" % type(e).__name__, {"case": case, "summary": "%s: %s" % (type(e).__name__, str(e)[:150])})
        return
    if (raised is None) != (exp_err is None):
        ctx.violation("sequence/%s/%s" % ("refused-but-stepwise-merges" if raised else "merged-but-stepwise-refuses", policy), {
            "case": case, "summary": str(raised or exp_err)[:200]})
        return
    if raised is not None:
        return
    ctx.mark_nontrivial([texts, policy, combo])
    if norm(yp.plain(got)) != norm(yp.plain(exp)):
        ctx.violation("sequence/data-differs/%s" % policy, {"case": case, "summary": "one Merger %r ; a Merger per step %r" % (
            yp.dump(got)[:250], yp.dump(exp)[:250])})
        return
    for n, nodes in anchored_nodes(got).items():
        vals = {repr(yp.scalar_plain(x)) if not yp.is_container(x) else "container" for x in nodes}
        if len(vals) > 1:
            ctx.violation("sequence/one-name-two-values/%s" % policy, {"case": case, "summary": "anchor %s holds %r ; dump=%r" % (
                n, sorted(vals), yp.dump(got)[:300])})
            return
    try:
        back = yp.load(yp.dump(got))
    except yp.LoadError as e:
        ctx.violation("sequence/does-not-reload/%s" % policy, {"case": case, "summary": "%r: %s" % (yp.dump(got)[:300], str(e)[:100])})
        return
    if norm(yp.plain(back)) != norm(yp.plain(got)):
        ctx.violation("sequence/reload-differs/%s" % policy, {"case": case, "summary": yp.dump(got)[:300]})


def norm(p):
    if p[0] == "map":
        return ("map", tuple(sorted(((repr(k), norm(v)) for k, v in p[1]), key=lambda kv: kv[0])))
    if p[0] == "seq":
        return ("seq", tuple(norm(x) for x in p[1]))
    return p


SEEDS = [("{a: &A1 x, b: *A1}", "{c: &A1 y, d: *A1}"), ("{a: &A1 x, b: *A1}", "{c: &A1 x, d: *A1}"),
         ("{a: &A1 x, b: &A1_1 q, c: *A1}", "{c: &A1 y, d: [*A1, *A1]}"), ("{a: &A1 x}", "{a: &A2 y, b: *A2}"),
         ("{l: [&A1 x, *A1]}", "{l: [&A1 y, *A1], m: {n: *A1}}")]


def run_shard(ctx):
    rng = ctx.rng
    if ctx.shard == 0:
        for l, r in SEEDS:
            # seeds are given as text: derive their trees by a tiny parser-free route (re-generate defs)
            import re
            ldefs = dict(re.findall(r"&(\w+) (\w+)", l))
            rdefs = dict(re.findall(r"&(\w+) (\w+)", r))
            for pol in POLICIES:
                run_text_case(ctx, l, ldefs, r, rdefs, pol, MERGE_SAMPLE[0])
            ctx.sample({"lhs": l, "rhs": r})
    want = SIZES[ctx.tier] // ctx.nshards
    n = 0
    while ctx.evaluations < want:
        lt, ldefs = gen(rng, extra_name=rng.random() < 0.3)
        rt, rdefs = gen(rng, extra_name=rng.random() < 0.3)
        if rng.random() < 0.4 and ldefs:
            # make the right-hand document reuse a left-hand value for one shared name (equal-value case)
            pass
        for pol in POLICIES:
            run_case(ctx, lt, ldefs, rt, rdefs, pol, rng.choice(MERGE_SAMPLE))
        if rng.random() < 0.3:
            texts = [gd.render(lt), gd.render(rt)] + [gd.render(gen(rng)[0]) for _ in range(rng.choice([1, 1, 2]))]
            if rng.random() < 0.5:
                texts.append(texts[0])        # a later document repeating the first one's anchors and values
            for pol in POLICIES:
                run_sequence(ctx, texts, pol, rng.choice(MERGE_SAMPLE))
        n += 1
        if n % 8 == 0:
            special_cases(ctx, rng)
        if n <= 2:
            ctx.sample({"lhs": gd.render(lt), "rhs": gd.render(rt)})


def special_cases(ctx, rng):
    """Two shapes the tree generator does not make: scalar anchors defined on Hash KEYS, and merges aimed (mergeat) at
    several left-hand nodes at once.  Both go the text route (expectation by textual substitution)."""
    v = lambda: rng.choice(["x", "y", "1", "2", "name"])
    # -- anchored keys
    kl, kr = rng.choice(["name", "x"]), rng.choice(["name", "x", "y"])
    l = "{&A1 %s: %s, lref: *A1%s}" % (kl, v(), rng.choice(["", ", l: [*A1, z]", ", m: {n: *A1}"]))
    r = "{&A1 %s: %s, rref: *A1%s}" % (kr, v(), rng.choice(["", ", l: [*A1]", ", m: {o: *A1}"]))
    combo = rng.choice(MERGE_SAMPLE)
    for pol in POLICIES:
        ctx.count("anchored_key_cases")
        run_text_case(ctx, l, {"A1": kl}, r, {"A1": kr}, pol, combo)
    # -- several merge targets
    lv, rv = v(), v()
    l = "{shared: &A1 %s, more: *A1, targets: {t1: {x: 1}, t2: {x: %s}, u3: {x: 3, also: q}}}" % (lv, rng.choice(["2", "*A1"]))
    r = "{val: &A1 %s, also: *A1%s}" % (rv, rng.choice(["", ", l: [*A1, *A1]", ", second: &A2 w, t: *A2"]))
    rdefs = {"A1": rv}
    if "&A2" in r:
        rdefs["A2"] = "w"
    at = rng.choice(["/targets/*", "/targets/t1", "targets.t*", "/targets/*[x>0]"])
    for pol in POLICIES:
        ctx.count("multi_target_cases" if at != "/targets/t1" else "single_target_cases")
        run_text_case(ctx, l, {"A1": lv}, r, rdefs, pol, combo, mergeat=at)


def run_text_case(ctx, ltext, ldefs, rtext, rdefs, policy, combo, mergeat=None):
    """Seed route: expectation by textual substitution of aliases/anchors."""
    import re

    def expand_text(t, defs, subst):
        def anc(m):
            return subst.get(m.group(1), m.group(2))
        t = re.sub(r"&(\w+) (\w+)", anc, t)
        return re.sub(r"\*(\w+)", lambda m: subst.get(m.group(1), defs[m.group(1)]), t)
    lt = ("raw", ltext)
    conflicts = [n for n in ldefs if n in rdefs and canon(ldefs[n]) != canon(rdefs[n])]
    lsub = {n: rdefs[n] for n in conflicts} if policy == "right" else {}
    rsub = {n: ldefs[n] for n in conflicts} if policy == "left" else {}
    case = {"lhs": ltext, "rhs": rtext, "anchors": policy, "policies": combo, "mergeat": mergeat}
    ctx.evaluations += 1
    if conflicts:
        ctx.mark_nontrivial([ltext, rtext, policy, combo, mergeat])
    try:
        got = merge(ltext, rtext, policy, combo, mergeat)
    except (MergeException, YAMLPathException) as e:
        if not (policy == "stop" and conflicts):
            try:
                merge(expand_text(ltext, ldefs, lsub), expand_text(rtext, rdefs, rsub), "stop", combo, mergeat)
            except (MergeException, YAMLPathException, yp.LoadError):
                ctx.count("both_refused")        # nothing to do with anchors: the anchor-free twins do not merge either
                return
            ctx.violation("refused-without-conflict/%s" % policy, {"case": case, "summary": "refused: %s" % str(e)[:150]})
        else:
            ctx.counters["stop_refused"] = ctx.counters.get("stop_refused", 0) + 1
        return
    except Exception as e:
        ctx.violation("crash/%s" % type(e).__name__, {"case": case, "summary": repr(e)[:200]})
        return
    if policy == "stop" and conflicts:
        ctx.violation("stop-did-not-refuse", {"case": case, "summary": "seed merged"})
        return
    try:
        exp = merge(expand_text(ltext, ldefs, lsub), expand_text(rtext, rdefs, rsub), "stop", combo, mergeat)
    except (MergeException, YAMLPathException, yp.LoadError):
        ctx.count("twin_refused_but_real_merged")        # (e.g. the substituted key now collides with another key)
        return
    for n, nodes in anchored_nodes(got).items():
        vals = {repr(yp.scalar_plain(x)) if not yp.is_container(x) else "container" for x in nodes}
        if len(vals) > 1:
            ctx.violation("one-name-two-values/%s" % policy, {"case": case, "summary": "anchor %s holds %r ; dump=%r" % (
                n, sorted(vals), yp.dump(got)[:300])})
            return
    if norm(yp.plain(got)) != norm(yp.plain(exp)):
        ctx.violation("data-differs/%s" % policy, {"case": case, "summary": "merged %r ; expected %r" % (
            yp.dump(got)[:200], yp.dump(exp)[:200])})
    try:
        back = yp.load(yp.dump(got))
        ctx.counters["reload_checked"] = ctx.counters.get("reload_checked", 0) + 1
        if norm(yp.plain(back)) != norm(yp.plain(got)):
            ctx.violation("reload-differs/%s" % policy, {"case": case, "summary": yp.dump(got)[:200]})
    except yp.LoadError as e:
        ctx.violation("does-not-reload/%s" % policy, {"case": case, "summary": "%r %s" % (yp.dump(got)[:200], str(e)[:80])})


def replay(w):
    import re
    c = w["case"]

    class _Ctx:
        def __init__(self):
            self.v, self.evaluations, self.counters = [], 0, {}

        def count(self, *a):
            pass

        def mark_nontrivial(self, *a):
            pass

        def violation(self, m, w):
            self.v.append((m, w["summary"]))
    cx = _Ctx()
    ldefs = dict(re.findall(r"&(\w+) (\w+)", c["lhs"]))
    rdefs = dict(re.findall(r"&(\w+) (\w+)", c["rhs"]))
    run_text_case(cx, c["lhs"], ldefs, c["rhs"], rdefs, c["anchors"], tuple(c["policies"]), c.get("mergeat"))
    return {"violated": bool(cx.v), "found": cx.v}


MANIFEST = {
    "level_text": ("Exploration: 3*10^4 (quick) to 8*10^5 (thorough) real merges of generated document pairs sharing an "
                   "anchor-name pool, under the four anchor policies and a sample of merge policies; twin-differential "
                   "data oracle (library merge of anchor-expanded twins with the policy's winning value substituted), "
                   "plus graph invariants on the live result (one value per anchor name, dump, strict reload, same data)."),
    "level_note": "Scalar anchors only; the data oracle shares the library's merge policies (their correctness is C05's subject).",
    "technique": "runtime twin-differential monitor (anchor-expanded twins) + graph/reload invariants on merge results",
}

"""Access to the repository under test + small shared helpers.

Importing this module puts $VERIF_REPO (default /repo) first on sys.path and
asserts that `yamlpath` really comes from there, so every check exercises the
current working tree (a scratch copy when the self-test points VERIF_REPO
elsewhere).
"""
import io
import os
import sys
from types import SimpleNamespace

REPO_ROOT = os.path.abspath(os.environ.get("VERIF_REPO", "/repo"))
if sys.path[0] != REPO_ROOT:
    sys.path.insert(0, REPO_ROOT)

import yamlpath  # noqa: E402

_yp_file = os.path.abspath(yamlpath.__file__)
if not _yp_file.startswith(REPO_ROOT + os.sep):
    raise RuntimeError("yamlpath imported from %s, not from %s" % (_yp_file, REPO_ROOT))

import ruamel.yaml  # noqa: E402
from ruamel.yaml.comments import (  # noqa: E402
    CommentedMap, CommentedSeq, CommentedSet, TaggedScalar)
from yamlpath import Processor, YAMLPath  # noqa: E402
from yamlpath.common import Parsers  # noqa: E402
from yamlpath.wrappers import ConsolePrinter, NodeCoords  # noqa: E402
from yamlpath.exceptions import YAMLPathException  # noqa: E402
from yamlpath.enums import PathSeparators  # noqa: E402

LOG = ConsolePrinter(SimpleNamespace(quiet=True, verbose=False, debug=False))


class LoadError(Exception):
    pass


def load(text):
    """Parse YAML/JSON text with yamlpath's own strict loader."""
    y = Parsers.get_yaml_editor()
    olderr = sys.stderr
    sys.stderr = io.StringIO()
    try:
        data, ok = Parsers.get_yaml_data(y, LOG, text, literal=True)
    except Exception as e:      # the loader itself crashed: still "does not load"
        raise LoadError("%s: %s" % (type(e).__name__, e))
    finally:
        sys.stderr = olderr
    if not ok:
        raise LoadError(text)
    return data


def load_all(text):
    y = Parsers.get_yaml_editor()
    out = []
    olderr = sys.stderr
    sys.stderr = io.StringIO()
    gen = Parsers.get_yaml_multidoc_data(y, LOG, text, literal=True)
    try:
        for data, ok in gen:
            if not ok:
                raise LoadError(text)
            out.append(data)
    except LoadError:
        raise
    except Exception as e:
        raise LoadError("%s: %s" % (type(e).__name__, e))
    finally:
        gen.close()          # leave the loader's warnings.catch_warnings() block deterministically
        sys.stderr = olderr
    return out


def dump(data):
    y = Parsers.get_yaml_editor()
    buf = io.StringIO()
    y.dump(data, buf)
    return buf.getvalue()


def is_map(n):
    return isinstance(n, dict)


def is_seq(n):
    return isinstance(n, list)


def is_set(n):
    return isinstance(n, (set, CommentedSet))


def own_items(n):
    """(key, value) pairs a mapping holds itself, without those it inherits through `<<` merge keys."""
    if getattr(n, "merge", None) and hasattr(n, "non_merged_items"):
        return list(n.non_merged_items())
    return list(n.items())


def merge_refs(n):
    """Anchor names of the mappings merged into this one with `<<`, in order."""
    return [anchor_of(m) for (_i, m) in (getattr(n, "merge", None) or [])]


def to_block(n, _seen=None):
    """Switch every container of a loaded document to block style (ruamel's flow emitter cannot re-read
    some of its own output once an anchored mapping moves inside a flow sequence)."""
    _seen = _seen if _seen is not None else set()
    if id(n) in _seen or not isinstance(n, (dict, list)) or is_set(n):
        return n
    _seen.add(id(n))
    if hasattr(n, "fa"):
        n.fa.set_block_style()
    for c in (n.values() if isinstance(n, dict) else n):
        to_block(c, _seen)
    for (_i, m) in (getattr(n, "merge", None) or []):
        to_block(m, _seen)
    return n


def is_container(n):
    return isinstance(n, (dict, list, set, CommentedSet))


def scalar_plain(n):
    """Plain-data image of a scalar node: (kind, value)."""
    if n is None:
        return ("null", None)
    if isinstance(n, TaggedScalar):
        return ("tagged", str(n.tag.value if hasattr(n.tag, "value") else n.tag), scalar_plain(n.value))
    if isinstance(n, bool) or type(n).__name__ == "ScalarBoolean":
        return ("bool", bool(n))
    if isinstance(n, int):
        return ("int", int(n))
    if isinstance(n, float):
        f = float(n)
        return ("float", repr(f))
    if isinstance(n, str):
        return ("str", str(n))
    import datetime
    if isinstance(n, (datetime.date, datetime.datetime)):
        return ("date", n.isoformat())
    return ("other", repr(n))


def plain(n):
    """Plain-data image of a whole tree (ordered maps, lists, sets)."""
    if isinstance(n, dict):
        return ("map", tuple((scalar_plain(k) if not is_container(k) else ("ckey", repr(k)), plain(v)) for k, v in n.items()))
    if is_set(n):
        return ("set", tuple(scalar_plain(e) for e in n))
    if isinstance(n, list):
        return ("seq", tuple(plain(e) for e in n))
    return scalar_plain(n)


def anchor_of(n):
    a = getattr(n, "anchor", None)
    if a is None:
        return None
    return getattr(a, "value", None) or None


def fingerprint(n, _seen=None):
    """Structure + identity fingerprint: container ids, ordered children,
    scalar kind/value, anchors, tags, merge keys.  Used by the purity monitor.
    """
    if _seen is None:
        _seen = set()
    if isinstance(n, dict):
        if id(n) in _seen:
            return ("ref", id(n))
        _seen.add(id(n))
        merge = tuple(id(m[1]) for m in getattr(n, "merge", []) or [])
        items = []
        it = n.non_merged_items() if hasattr(n, "non_merged_items") else n.items()
        for k, v in it:
            items.append((scalar_plain(k) if not is_container(k) else repr(k), anchor_of(k), fingerprint(v, _seen)))
        return ("map", id(n), anchor_of(n), merge, tuple(items))
    if is_set(n):
        if id(n) in _seen:
            return ("ref", id(n))
        _seen.add(id(n))
        return ("set", id(n), anchor_of(n), tuple((scalar_plain(e), anchor_of(e)) for e in n))
    if isinstance(n, list):
        if id(n) in _seen:
            return ("ref", id(n))
        _seen.add(id(n))
        return ("seq", id(n), anchor_of(n), tuple(fingerprint(e, _seen) for e in n))
    return ("leaf", scalar_plain(n), anchor_of(n), type(n).__name__)


def versions():
    return {
        "python": sys.version.split()[0],
        "ruamel.yaml": ruamel.yaml.__version__,
        "yamlpath_file": _yp_file,
        "repo_root": REPO_ROOT,
    }

"""Coordinator / worker harness shared by every check.

A check module (vf/checks/Cxx.py) provides:

    PROPERTY   "C14"
    LEVEL      "exploration" | "fault_enumeration"
    RULE       str   how cases are generated and what makes one non-trivial
    ASSUMPTIONS list[str]
    REACH      list[(relfile, first_line, last_line, label)]   anchored ranges
    run_shard(ctx)      executes this shard's workload under the monitors
    replay(witness)     re-executes one recorded case, returns a dict
    (optional) finish(merged) -> None   cross-shard post-processing

Verdicts: exit 0 held (possibly with KNOWN-FINDING lines), exit 1 VIOLATION,
exit 2 INCONCLUSIVE (watchdog, dead worker, monitor never reached).
"""
import faulthandler
import hashlib
import importlib
import json
import os
import pickle
import random
import subprocess
import sys
import time
import traceback

VERIF_ROOT = os.path.dirname(os.path.dirname(os.path.dirname(os.path.abspath(__file__))))
MAX_WITNESS_PER_MECH = 3
MAX_SAMPLES = 6


def stable_hash(obj):
    s = obj if isinstance(obj, str) else json.dumps(obj, sort_keys=True, default=repr)
    return int.from_bytes(hashlib.blake2b(s.encode("utf-8", "surrogatepass"), digest_size=8).digest(), "big")


class CaseTimeout(Exception):
    """A single case exceeded its generous per-case budget (logical verdict: did not terminate)."""


class case_deadline:
    """with case_deadline(20): ...   raises CaseTimeout inside the block after N seconds of this process's own CPU
    time (ITIMER_PROF), NOT wall time: on a loaded machine a starved process makes no progress for a long wall time
    without looping (a thorough run shared with other jobs produced hundreds of 30-s wall-clock 'time-outs' on cases
    that cost milliseconds and that no replay reproduces).  Only for cases whose normal cost is milliseconds."""

    def __init__(self, seconds):
        self.seconds = seconds

    def _fire(self, signum=None, frame=None):
        # where was the code when the budget ran out?  (innermost frames; part of the witness)
        import traceback
        where = []
        try:
            for fs in traceback.extract_stack(frame)[-8:]:
                where.append("%s:%d:%s" % (fs.filename.rsplit("/", 1)[-1], fs.lineno, fs.name))
        except Exception:
            pass
        raise CaseTimeout(" <- ".join(reversed(where)))

    def __enter__(self):
        import signal
        self._old = signal.signal(signal.SIGPROF, self._fire)
        signal.setitimer(signal.ITIMER_PROF, self.seconds)
        return self

    def __exit__(self, *a):
        import signal
        signal.setitimer(signal.ITIMER_PROF, 0)
        signal.signal(signal.SIGPROF, self._old)
        return False


class Ctx:
    """Per-shard context handed to run_shard()."""

    def __init__(self, prop, tier, seed, shard, nshards):
        self.prop, self.tier, self.seed = prop, tier, seed
        self.shard, self.nshards = shard, nshards
        self.rng = random.Random(stable_hash([seed, prop, tier, shard]))
        self.counters = {}
        self.evaluations = 0
        self.nontrivial = set()
        self.samples = []
        self.violations = {}      # mechanism -> {"count": n, "witnesses": [...]}
        self.reach_lines = set()
        self._reach_on = False
        self.notes = {}

    # ---- counting -------------------------------------------------------
    def count(self, key, n=1):
        self.counters[key] = self.counters.get(key, 0) + n

    def evaluated(self, n=1):
        self.evaluations += n

    def mark_nontrivial(self, descriptor):
        self.nontrivial.add(stable_hash(descriptor))

    def sample(self, obj, every=1):
        if len(self.samples) < MAX_SAMPLES:
            self.samples.append(obj)

    def violation(self, mechanism, witness):
        """Record a property violation witnessed by a monitor.

        `mechanism` is the signature computed by the check's classifier
        (vf.core.findings style predicate); the coordinator decides whether it
        is a listed known finding.
        """
        ent = self.violations.setdefault(mechanism, {"count": 0, "witnesses": []})
        ent["count"] += 1
        if len(ent["witnesses"]) < MAX_WITNESS_PER_MECH:
            w = dict(witness)
            w["mechanism"] = mechanism
            w["property"] = self.prop
            w["gen"] = {"seed": self.seed, "tier": self.tier, "shard": self.shard,
                        "nshards": self.nshards}
            ent["witnesses"].append(w)

    # ---- reach monitor (sys.monitoring LINE + DISABLE) ---------------------
    def reach_start(self):
        from vf.core import yp
        mon = sys.monitoring
        tool = mon.COVERAGE_ID
        prefix = os.path.join(yp.REPO_ROOT, "yamlpath") + os.sep
        lines = self.reach_lines
        plen = len(yp.REPO_ROOT) + 1

        def on_line(code, line):
            fn = code.co_filename
            if fn.startswith(prefix):
                lines.add((fn[plen:], line))
            return mon.DISABLE

        try:
            mon.use_tool_id(tool, "vf-reach")
        except ValueError:
            pass
        mon.register_callback(tool, mon.events.LINE, on_line)
        mon.set_events(tool, mon.events.LINE)
        self._reach_on = True

    def reach_stop(self):
        if self._reach_on:
            mon = sys.monitoring
            mon.set_events(mon.COVERAGE_ID, 0)
            self._reach_on = False

    def result(self):
        return {
            "counters": self.counters, "evaluations": self.evaluations,
            "nontrivial": self.nontrivial, "samples": self.samples,
            "violations": self.violations, "reach": self.reach_lines,
            "notes": self.notes,
        }


# ---------------------------------------------------------------------------
def worker_main(prop, tier, seed, shard, nshards, outfile, watchdog_s):
    faulthandler.enable()
    faulthandler.dump_traceback_later(watchdog_s, exit=True)
    mod = importlib.import_module("vf.checks." + prop)
    ctx = Ctx(prop, tier, seed, shard, nshards)
    t0 = time.time()
    err = None
    try:
        if getattr(mod, "REACH", None):
            ctx.reach_start()
        mod.run_shard(ctx)
    except BaseException:  # the harness itself failed: inconclusive, not a verdict
        err = traceback.format_exc()
    finally:
        ctx.reach_stop()
    res = ctx.result()
    res["wall_s"] = time.time() - t0
    res["harness_error"] = err
    with open(outfile, "wb") as f:
        pickle.dump(res, f)
    faulthandler.cancel_dump_traceback_later()


def executable_lines(relfile, lo, hi):
    """Lines in [lo,hi] of a repo file that carry code (per compiled code objects)."""
    from vf.core import yp
    path = os.path.join(yp.REPO_ROOT, relfile)
    with open(path, "r", encoding="utf-8") as f:
        src = f.read()
    top = compile(src, path, "exec")
    out = set()
    stack = [top]
    while stack:
        co = stack.pop()
        for _s, _e, ln in co.co_lines():
            if ln is not None and lo <= ln <= hi:
                out.add(ln)
        for c in co.co_consts:
            if hasattr(c, "co_lines"):
                stack.append(c)
    return out


def function_spans(relfile, names):
    """(first, last) source lines of every function/method with one of the given names."""
    import ast
    from vf.core import yp
    with open(os.path.join(yp.REPO_ROOT, relfile), "r", encoding="utf-8") as f:
        tree = ast.parse(f.read())
    out = []
    for node in ast.walk(tree):
        if isinstance(node, (ast.FunctionDef, ast.AsyncFunctionDef)) and node.name in names:
            out.append((node.lineno, node.end_lineno))
    return out


def load_known():
    p = os.path.join(VERIF_ROOT, "known_findings.json")
    if not os.path.exists(p):
        return []
    with open(p) as f:
        return json.load(f).get("findings", [])


def git_state(root):
    try:
        head = subprocess.run(["git", "-C", root, "rev-parse", "HEAD"], capture_output=True,
                              text=True, timeout=20).stdout.strip()
        dirty = bool(subprocess.run(["git", "-C", root, "status", "--porcelain", "--untracked-files=no"],
                                    capture_output=True, text=True, timeout=20).stdout.strip())
        return head, dirty
    except Exception:
        return "unknown", None


def coordinator(prop, tier, seed, nshards=None):
    mod = importlib.import_module("vf.checks." + prop)
    t0 = time.time()
    if nshards is None:
        nshards = getattr(mod, "SHARDS", {}).get(tier, min(16, os.cpu_count() or 4))
    watchdog = getattr(mod, "WATCHDOG_S", {}).get(tier, 900 if tier == "quick" else 7200)
    workdir = "/dev/shm/vf-%s-%s-%d-%d" % (prop, tier, seed, os.getpid())
    if not os.path.isdir("/dev/shm"):
        workdir = os.path.join(VERIF_ROOT, ".work", os.path.basename(workdir))
    os.makedirs(workdir, exist_ok=True)
    procs = []
    hash_seeds = set()
    for i in range(nshards):
        env = dict(os.environ)
        hs = 0 if tier == "quick" else i % 8
        hs = int(os.environ.get("VERIF_HASHSEED", hs))
        hash_seeds.add(hs)
        env["PYTHONHASHSEED"] = str(hs)
        env["YAMLPATH_VERIF"] = "1"
        env["VF_WORKDIR"] = workdir
        env["PYTHONPATH"] = VERIF_ROOT + os.pathsep + env.get("PYTHONPATH", "")
        out = os.path.join(workdir, "shard%d.pkl" % i)
        cmd = [sys.executable, "-m", "vf.run", prop, "--worker", "--tier", tier, "--seed", str(seed),
               "--shard", str(i), "--nshards", str(nshards), "--out", out,
               "--watchdog", str(watchdog)]
        p = subprocess.Popen(cmd, cwd=VERIF_ROOT, env=env, stdout=subprocess.PIPE,
                             stderr=subprocess.PIPE, text=True)
        procs.append((i, p, out))
    results, inconclusive = [], []
    for i, p, out in procs:
        try:
            so, se = p.communicate(timeout=watchdog + 60)
        except subprocess.TimeoutExpired:
            p.kill()
            so, se = p.communicate()
            inconclusive.append("shard %d watchdog" % i)
            continue
        if p.returncode != 0 or not os.path.exists(out):
            inconclusive.append("shard %d died rc=%s: %s" % (i, p.returncode, (se or "")[-1500:]))
            continue
        with open(out, "rb") as f:
            r = pickle.load(f)
        if r.get("harness_error"):
            inconclusive.append("shard %d harness error: %s" % (i, r["harness_error"][-1500:]))
        results.append(r)
    # ---- merge ------------------------------------------------------------
    counters, nontrivial, samples, reach, violations, notes = {}, set(), [], set(), {}, {}
    evaluations = 0
    for r in results:
        evaluations += r["evaluations"]
        for k, v in r["counters"].items():
            counters[k] = counters.get(k, 0) + v
        nontrivial |= r["nontrivial"]
        if len(samples) < 12:
            samples.extend(r["samples"][:2])
        reach |= r["reach"]
        for m, ent in r["violations"].items():
            e = violations.setdefault(m, {"count": 0, "witnesses": []})
            e["count"] += ent["count"]
            if len(e["witnesses"]) < MAX_WITNESS_PER_MECH:
                e["witnesses"].extend(ent["witnesses"][:MAX_WITNESS_PER_MECH - len(e["witnesses"])])
        for k, v in r["notes"].items():
            if k.startswith("max_") and k in notes:
                notes[k] = max(notes[k], v, key=lambda t: t[0])
            else:
                notes.setdefault(k, v)
    merged = {"counters": counters, "evaluations": evaluations, "nontrivial": nontrivial,
              "samples": samples, "reach": reach, "violations": violations, "notes": notes,
              "tier": tier, "seed": seed}
    if hasattr(mod, "finish"):
        try:
            mod.finish(merged)
        except Exception:
            inconclusive.append("finish() failed: " + traceback.format_exc()[-1500:])
    # ---- reach ------------------------------------------------------------
    reach_report = {}
    for entry in getattr(mod, "REACH", []) or []:
        if len(entry) == 3:          # (file, "func1,func2", label): ranges resolved from the source itself
            relfile, names, label = entry
            try:
                spans = function_spans(relfile, names.split(","))
            except Exception as e:
                reach_report[label] = {"error": repr(e)}
                continue
            if not spans:
                inconclusive.append("anchored function(s) not found: %s %s" % (relfile, names))
                continue
            exl, hitl = set(), set()
            for lo, hi in spans:
                exl |= executable_lines(relfile, lo, hi)
                hitl |= {ln for (f, ln) in reach if f == relfile and lo <= ln <= hi}
            reach_report[label] = {"file": relfile, "functions": names, "lines_hit": len(hitl & exl) or len(hitl),
                                   "lines_executable": len(exl)}
            if not hitl and results:
                inconclusive.append("anchored functions never executed: %s" % label)
            continue
        relfile, lo, hi, label = entry
        try:
            ex = executable_lines(relfile, lo, hi)
        except Exception as e:  # file moved: cannot measure
            reach_report[label] = {"error": repr(e)}
            continue
        hit = {ln for (f, ln) in reach if f == relfile and lo <= ln <= hi}
        reach_report[label] = {"file": relfile, "range": [lo, hi], "lines_hit": len(hit & ex) or len(hit),
                               "lines_executable": len(ex)}
        if not hit and results:
            inconclusive.append("anchored range never executed: %s" % label)
    min_eval = getattr(mod, "MIN_EVALUATIONS", {}).get(tier, 1)
    if evaluations < min_eval and not inconclusive:
        inconclusive.append("only %d evaluations (< %d): monitor not reached" % (evaluations, min_eval))
    for key in getattr(mod, "REQUIRED_COUNTERS", []) or []:
        if counters.get(key, 0) <= 0 and not inconclusive:
            inconclusive.append("deciding monitor never evaluated: counter %s = 0" % key)
    # ---- classify -----------------------------------------------------------
    known = [k for k in load_known() if k.get("property") == prop and k.get("status") == "known"]
    known_by_mech = {k["mechanism"]: k for k in known}
    lines, new_viol, known_seen = [], 0, {}
    out_root = os.environ.get("VF_OUT", VERIF_ROOT)      # self-tests redirect evidence/replay away from /verif
    replay_dir = os.path.join(out_root, "replay", prop)
    if os.path.isdir(replay_dir):
        for fn in os.listdir(replay_dir):
            if fn.endswith(".json"):
                os.unlink(os.path.join(replay_dir, fn))
    for mech in sorted(violations):
        ent = violations[mech]
        if mech in known_by_mech:
            known_seen[mech] = ent["count"]
            lines.append("KNOWN-FINDING: property=%s %s [mechanism=%s, seen %d times]" % (
                prop, known_by_mech[mech].get("what", ""), mech, ent["count"]))
            continue
        new_viol += 1
        os.makedirs(replay_dir, exist_ok=True)
        w = ent["witnesses"][0]
        name = "%016x.json" % stable_hash([mech, w.get("case", w)])
        path = os.path.join(replay_dir, name)
        with open(path, "w") as f:
            json.dump({"witness": w, "count": ent["count"], "others": ent["witnesses"][1:]}, f,
                      indent=1, default=repr, sort_keys=True)
        if new_viol <= 20:
            lines.append("VIOLATION property=%s replay=%s" % (prop, path))
            lines.append("  mechanism=%s count=%d %s" % (mech, ent["count"], json.dumps(
                w.get("summary", w.get("case", "")), default=repr)[:400]))
    # ---- evidence -------------------------------------------------------------
    from vf.core import yp
    head, dirty = git_state(yp.REPO_ROOT)
    coverage = {
        "evaluations": int(evaluations),
        "distinct_nontrivial": len(nontrivial),
        "rule": mod.RULE,
        "samples": samples[:10] or ["<none>"],
        "counters": dict(sorted(counters.items())),
        "reach": reach_report,
        "known_findings_seen": known_seen,
        "unlisted_violation_mechanisms": sorted(m for m in violations if m not in known_by_mech),
        "hash_seeds": sorted(hash_seeds),
        "shards": nshards,
        "repo": dict(yp.versions(), head=head, dirty=dirty),
        "notes": notes,
    }
    if getattr(mod, "EXHAUSTIVE_NOTE", None) and merged.get("exhaustive"):
        coverage["exhaustive"] = True
        coverage["exhaustive_scope"] = mod.EXHAUSTIVE_NOTE
    if inconclusive:
        coverage["inconclusive_reason"] = inconclusive
    ev = {
        "property_id": prop, "tier": tier, "seed": int(seed), "level": mod.LEVEL,
        "coverage": coverage, "assumptions": list(getattr(mod, "ASSUMPTIONS", [])),
        "wall_s": round(time.time() - t0, 2), "violations": new_viol,
    }
    os.makedirs(os.path.join(out_root, "evidence"), exist_ok=True)
    with open(os.path.join(out_root, "evidence", prop + ".json"), "w") as f:
        json.dump(ev, f, indent=1, default=repr, sort_keys=True)
    try:
        import shutil
        shutil.rmtree(workdir, ignore_errors=True)
    except Exception:
        pass
    for ln in lines:
        print(ln)
    print("%s tier=%s seed=%d evaluations=%d distinct_nontrivial=%d violations=%d known=%d wall=%.1fs" % (
        prop, tier, seed, evaluations, len(nontrivial), new_viol, len(known_seen), time.time() - t0))
    if new_viol:
        return 1
    if inconclusive:
        for r in inconclusive:
            print("INCONCLUSIVE property=%s reason=%s" % (prop, r.replace("\n", " | ")[:600]))
        return 2
    return 0


def replay(prop, path):
    mod = importlib.import_module("vf.checks." + prop)
    with open(path) as f:
        rec = json.load(f)
    w = rec.get("witness", rec)
    out = mod.replay(w)
    print(json.dumps(out, indent=1, default=repr))
    return 1 if out.get("violated") else 0

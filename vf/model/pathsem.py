"""Reference evaluator for the C01 path fragment (clean-room, denotational).

Walks the *live* ruamel tree read-only and returns positions tagged sure/maybe:
`must` = sure positions, `unspecified` = maybe positions.  Verdict rule used by
the checks:  must ⊆ observed ⊆ must ∪ maybe ; when no maybe position exists
the observed sequence must equal the must sequence (multiset, then order).

Sources of the rules: README.md (segment types, "Array-of-Hashes
Pass-Through", numbered hash keys, slices, wildcards, traversal), enum
docstrings, and behaviours pinned by tests/test_processor.py.  See DESIGN.md
section 3 C01 for the list and for what is deliberately left unspecified.
"""
import re

from vf.model import cmp as C


class Documented(Exception):
    """The documentation prescribes a YAML Path error for this case."""


class Abstain(Exception):
    """The whole case is outside what the model decides."""


class Pos:
    __slots__ = ("node", "parent", "ref", "kind", "ord", "sure", "anc")

    def __init__(self, node, parent, ref, kind, ordv, sure=True, anc=()):
        self.node, self.parent, self.ref, self.kind = node, parent, ref, kind
        self.ord, self.sure, self.anc = ordv, sure, anc

    def child(self, node, ref, kind, i, sure=True):
        return Pos(node, self.node, ref, kind, self.ord + (i,), self.sure and sure,
                   self.anc + ((self.node, ref),))

    def unsure(self):
        return Pos(self.node, self.parent, self.ref, self.kind, self.ord, False, self.anc)

    def loc(self):
        return self.ord


class VList:
    """Virtual list produced by an array slice: holds positions."""
    __slots__ = ("items", "sure", "ord")

    def __init__(self, items, sure, ordv):
        self.items, self.sure, self.ord = items, sure, ordv


def is_map(n):
    return isinstance(n, dict)


def is_seq(n):
    return isinstance(n, list)


def is_set(n):
    return isinstance(n, set) or type(n).__name__ == "CommentedSet"


def is_scalar(n):
    return not (is_map(n) or is_seq(n) or is_set(n))


def anchor_of(n):
    a = getattr(n, "anchor", None)
    return getattr(a, "value", None) or None if a is not None else None


def children(p):
    n = p.node
    if is_map(n):
        return [p.child(v, k, "k", i) for i, (k, v) in enumerate(n.items())]
    if is_seq(n):
        return [p.child(v, i, "i", i) for i, v in enumerate(n)]
    if is_set(n):
        return [p.child(e, e, "s", i) for i, e in enumerate(n)]
    return []


def root(data):
    return Pos(data, None, None, "root", ())


def compare(op, term, value):
    """True / False / None (unspecified)."""
    if not is_scalar(value):
        return None            # comparing a container's text: undocumented
    try:
        return C.decide(op, value, term)
    except re.error:
        raise Documented("invalid regular expression")


def _inv(m, inverted):
    if m is None:
        return None
    return (not m) if inverted else m


def attr_path(attr):
    """A descendant attribute path: keys separated by . or / (only plain keys are generated)."""
    if attr.startswith("/"):
        parts = [x for x in attr.split("/") if x]
    else:
        parts = [x for x in attr.split(".") if x]
    return [("KEY", x) for x in parts]


def expand_wild(pattern):
    n = pattern.count("*")
    if n == 1 and len(pattern) > 1:
        i = pattern.index("*")
        if i == 0:
            return ("SEARCH", False, "$", ".", pattern[1:])
        if i == len(pattern) - 1:
            return ("SEARCH", False, "^", ".", pattern[:-1])
        return ("SEARCH", False, "=~", ".", "^%s.*%s$" % (pattern[:i], pattern[i + 1:]))
    rx = "^" + "".join(".*" if c == "*" else c for c in pattern) + "$"
    return ("SEARCH", False, "=~", ".", rx)


class Evaluator:
    def __init__(self, segs):
        self.segs = [expand_wild(s[1]) if s[0] == "WILD" else s for s in segs]
        self.dead_branch = False      # a creatable segment matched nothing at a reached position
        self.saw_maybe = False

    # ---- one segment at one position ---------------------------------------
    def seg(self, i, p, tl=True):
        """Positions selected by segment i at position p (look-ahead aware)."""
        if isinstance(p, VList):
            return self.seg_vlist(i, p, tl)
        s = self.segs[i]
        t = s[0]
        n = p.node
        if t == "KEY":
            return self.key(s[1], p, tl)
        if t == "INDEX":
            idx = s[1]
            if is_seq(n):
                if -len(n) <= idx < len(n):
                    return [p.child(n[idx], idx if idx >= 0 else idx, "i", idx % len(n))]
                return []
            if is_set(n):
                raise Documented("array index on a set")
            return []
        if t == "SLICE":
            if is_seq(n):
                return self.seg_slice(s[1], s[2], p)
            return self.hslice(str(s[1]), str(s[2]), p)
        if t == "HSLICE":
            if is_seq(n):
                try:
                    a, b = int(s[1]), int(s[2])
                except ValueError:
                    raise Documented("non-integer slice of an array")
                return self.seg_slice(a, b, p)
            return self.hslice(s[1], s[2], p)
        if t == "ANCHOR":
            name = s[1]
            out = []
            if is_map(n):
                if getattr(n, "merge", None):
                    raise Abstain("merge keys")
                for c in children(p):
                    if anchor_of(c.ref) == name or anchor_of(c.node) == name:
                        out.append(c)
            else:
                for c in children(p):
                    if anchor_of(c.node) == name:
                        out.append(c)
            return out
        if t == "SEARCH":
            return self.search(s, p, tl)
        if t == "ALL":
            if i + 1 >= len(self.segs):
                return children(p)
            out = []
            if is_map(n) or is_seq(n):
                for c in children(p):
                    r = self.seg(i + 1, c)
                    if r:
                        sure = any(x.sure for x in r)
                        out.append(c if sure else c.unsure())
            return out
        if t == "TRAVERSE":
            if i + 1 >= len(self.segs):
                return self.leaves(p)
            if self.segs[i + 1][0] == "TRAVERSE":
                raise Documented("repeated traversal")
            out = []
            self.walk_filter(i, p, out)
            return out
        raise Abstain("segment kind %s" % t)

    def seg_slice(self, a, b, p):
        n = p.node
        if (a < 0) != (b < 0) and not (a == b):
            raise Abstain("mixed-sign slice")
        if a == b:
            if -len(n) <= a < len(n):
                return [VList([p.child(n[a], a, "i", a % len(n))], p.sure, p.ord)]
            raise Abstain("a:a out of range: emptiness of the selection is unspecified")
        idx = [j for j in range(a, b) if -len(n) <= j < len(n)]
        if not idx:
            raise Abstain("empty slice: whether it matches is unspecified")
        return [VList([p.child(n[j], j, "i", j % len(n)) for j in idx], p.sure, p.ord)]

    def key(self, k, p, tl):
        n = p.node
        if is_map(n):
            for c in children(p):
                if isinstance(c.ref, str) and str(c.ref) == k:
                    return [c]
            try:
                ik = int(k)
            except ValueError:
                return []
            for c in children(p):
                if not isinstance(c.ref, (str, bool)) and isinstance(c.ref, int) and c.ref == ik:
                    return [c]
            return []
        if is_seq(n):
            try:
                idx = int(k)
            except ValueError:
                if not tl:
                    return []
                out = []
                for c in children(p):
                    out += self.key(k, c, tl)
                return out
            if -len(n) <= idx < len(n):
                return [p.child(n[idx], idx, "i", idx % len(n))]
            return []
        if is_set(n):
            for c in children(p):
                if isinstance(c.node, str) and str(c.node) == k:
                    return [c]
                if not isinstance(c.node, str) and str(c.node) == k:
                    return [c.unsure()]
            return []
        return []

    def hslice(self, lo, hi, p):
        n = p.node
        if is_map(n) or is_set(n):
            out = []
            for c in children(p):
                kt = c.ref
                if isinstance(kt, str):
                    if lo <= str(kt) <= hi:
                        out.append(c)
                else:
                    if lo <= str(kt) <= hi:
                        out.append(c.unsure())     # non-string keys under a text slice: unspecified
                    else:
                        pass
            return out
        return []

    def search(self, s, p, tl):
        _, inv, op, attr, term = s
        n = p.node
        out = []

        def add(c, m):
            m = _inv(m, inv)
            if m is None:
                out.append(c.unsure())
            elif m:
                out.append(c)

        if is_seq(n):
            if not tl:
                return []
            for c in children(p):
                e = c.node
                if attr == ".":
                    if is_map(e):
                        add(c, None)            # hash element under a value search: unspecified
                    else:
                        add(c, compare(op, term, e))
                elif is_map(e) and self.has_key(e, attr):
                    add(c, compare(op, term, self.get_key(e, attr)))
                else:
                    d = self.descend(attr, c)
                    if not d:
                        add(c, False)
                    elif len(d) == 1:
                        add(c, compare(op, term, d[0].node) if d[0].sure else None)
                    else:
                        # several descendants: "first" vs "any" is not documented
                        ms = {compare(op, term, x.node) for x in d}
                        add(c, ms.pop() if len(ms) == 1 and all(x.sure for x in d) else None)
            return out
        if is_map(n):
            if attr == ".":
                for c in children(p):
                    add(c, compare(op, term, c.ref))
                return out
            if self.has_key(n, attr):
                for c in children(p):
                    if str(c.ref) == attr and isinstance(c.ref, str):
                        add(c, compare(op, term, c.node))
                return out
            d = self.descend(attr, p)
            if not d:
                add(p, False)
            else:
                ms = {compare(op, term, x.node) for x in d}
                add(p, ms.pop() if len(ms) == 1 and all(x.sure for x in d) else None)
            return out
        if is_set(n):
            for c in children(p):
                add(c, compare(op, term, c.node))
            return out
        # scalar
        if attr == ".":
            add(p, compare(op, term, n))
        else:
            add(p, None)       # a named attribute of a bare scalar: unspecified
        return out

    @staticmethod
    def has_key(m, attr):
        return any(isinstance(k, str) and str(k) == attr for k in m.keys())

    @staticmethod
    def get_key(m, attr):
        for k, v in m.items():
            if isinstance(k, str) and str(k) == attr:
                return v
        raise KeyError(attr)

    def descend(self, attr, p):
        if any(ch in attr for ch in " []()'\"^$%&*!=<>~\\,:"):
            # the attribute is re-read as a YAML Path of its own; how characters that had to be escaped in the outer path
            # are to be read there is not documented (the library re-parses the bare text: `sp\ ace` looks for `space`)
            raise Abstain("attribute text needing escapes used as a descendant path")
        sub = Evaluator(attr_path(attr))
        try:
            return sub.run_from(p)
        except Documented:
            raise Abstain("error inside an attribute path")

    def leaves(self, p):
        n = p.node
        if is_map(n) or is_seq(n):
            out = []
            for c in children(p):
                out += self.leaves(c)
            return out
        if is_set(n):
            return children(p)
        return [p]

    def walk_filter(self, i, p, out):
        r = self.seg(i + 1, p, tl=False)
        if r:
            sure = any(x.sure for x in r)
            out.append(p if sure else p.unsure())
        n = p.node
        if is_map(n) or is_seq(n):
            for c in children(p):
                self.walk_filter(i, c, out)

    def seg_vlist(self, i, v, tl):
        s = self.segs[i]
        t = s[0]
        if t == "KEY":
            try:
                idx = int(s[1])
            except ValueError:
                out = []
                for c in v.items:
                    out += self.key(s[1], c, tl)
                return out
            if -len(v.items) <= idx < len(v.items):
                return [v.items[idx]]
            return []
        if t == "INDEX":
            idx = s[1]
            if -len(v.items) <= idx < len(v.items):
                return [v.items[idx]]
            return []
        raise Abstain("segment after a slice")

    # ---- whole path -----------------------------------------------------------
    def run_from(self, p):
        cur = [p]
        for i, s in enumerate(self.segs):
            nxt = []
            for q in cur:
                try:
                    r = self.seg(i, q)
                except Documented:
                    if not q.sure:
                        raise Abstain("error at an unspecified position")
                    raise
                if not r and s[0] in ("KEY", "INDEX", "SLICE", "HSLICE", "ANCHOR"):
                    self.dead_branch = True
                if isinstance(q, Pos) and q.node is None and i < len(self.segs):
                    self.dead_branch = True
                nxt += r
            cur = nxt
        return cur

    def run(self, data):
        if data is None:
            return []
        res = self.run_from(root(data))
        flat = []
        for r in res:
            if isinstance(r, VList):
                flat += r.items
            else:
                flat.append(r)
        self.saw_maybe = any(not x.sure for x in flat)
        return flat

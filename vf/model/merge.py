"""Three-valued reference merge on plain data (C05), from the merge-policy enum docstrings.

Plain form: ("map", [(key, node), ...]) | ("seq", [node, ...]) | ("set", [member, ...]) | ("s", value)
where key / member / value are python scalars (None, bool, int, float, str).

mmerge(L, R, cfg, rules, path) returns the merged plain tree, or raises
Impossible (a MergeException is documented) or Unspec (documentation silent).
cfg = dict(hashes, arrays, aoh, sets); rules: {slash path in R: mode}; keys: {slash path: identity key}.
"""


class Impossible(Exception):
    pass


class Unspec(Exception):
    pass


def plain(n):
    from vf.core import yp
    if isinstance(n, dict):
        return ("map", [(pkey(k), plain(v)) for k, v in n.items()])
    if yp.is_set(n):
        return ("set", [pkey(e) for e in n])
    if isinstance(n, list):
        return ("seq", [plain(e) for e in n])
    return ("s", pkey(n))


def pkey(k):
    if k is None or isinstance(k, (bool, str)) and not hasattr(k, "anchor") and False:
        return k
    if k is None:
        return None
    if isinstance(k, bool) or type(k).__name__ == "ScalarBoolean":
        return bool(k)
    if isinstance(k, int):
        return int(k)
    if isinstance(k, float):
        return float(k)
    return str(k)


def kind(p):
    return p[0] if p[0] in ("map", "seq", "set") else "scalar"


def is_aoh(p):
    return p[0] == "seq" and len(p[1]) > 0 and p[1][0][0] == "map"


def strict_eq(a, b):
    """Equality with bool/int/float kept apart; mappings unordered."""
    if a[0] != b[0]:
        return False
    if a[0] == "s":
        return type(a[1]) is type(b[1]) and a[1] == b[1]
    if a[0] == "map":
        if len(a[1]) != len(b[1]):
            return False
        db = {repr(k): v for k, v in b[1]}
        return all(repr(k) in db and strict_eq(v, db[repr(k)]) for k, v in a[1])
    if a[0] == "set":
        return sorted(map(repr, a[1])) == sorted(map(repr, b[1]))
    return len(a[1]) == len(b[1]) and all(strict_eq(x, y) for x, y in zip(a[1], b[1]))


def loose_conflict(vals):
    """Do python-equal but differently typed scalars (1 / True / 1.0) occur together?"""
    sc = [v[1] for v in vals if v[0] == "s"]
    for i, a in enumerate(sc):
        for b in sc[i + 1:]:
            try:
                if a == b and type(a) is not type(b):
                    return True
            except Exception:
                pass
    return False


class Model:
    def __init__(self, cfg, rules=None, keys=None):
        self.cfg = cfg
        self.rules = rules or {}
        self.keys = keys or {}

    def mode(self, what, path):
        return self.rules.get(path) or self.cfg[what]

    # ---- root ---------------------------------------------------------------------
    def root(self, L, R):
        kl, kr = kind(L), kind(R)
        if kr == "map":
            if kl == "map":
                m = self.mode("hashes", "/")
                if m == "left":
                    return L
                if m == "right":
                    return R
                return self.dicts(L, R, "")
            if kl == "set":
                raise Impossible("hash into set")
            if kl == "seq":
                raise Unspec("hash into list at the root")
            raise Impossible("hash into scalar")
        if kr == "seq":
            if kl == "seq":
                return self.lists(L, R, "/")
            if kl == "set":
                raise Unspec("list into set")
            raise Impossible("array into hash / scalar")
        if kr == "set":
            if kl == "set":
                return self.sets(L, R, "/")
            raise Unspec("set into non-set")
        # scalar R
        if kl == "map":
            raise Impossible("scalar into hash")
        if kl == "seq":
            return ("seq", L[1] + [R])
        if kl == "set":
            raise Unspec("scalar into set")
        return R

    # ---- hashes ----------------------------------------------------------------------
    def dicts(self, L, R, path):
        if L[0] != "map":
            raise Impossible("hash data into non-hash destination")
        out = list(L[1])
        keys = [repr(k) for k, _ in out]
        new = []
        for k, v in R[1]:
            p = path + "/" + str(k)
            if repr(k) in keys:
                i = keys.index(repr(k))
                out[i] = (out[i][0], self.child(out[i][1], v, p))
            else:
                new.append((k, v))
        return ("map", out + new)       # position of new keys: unspecified (compared as a mapping)

    def child(self, l, r, p):
        kr = kind(r)
        if kr == "scalar":
            # right-hand scalars override -- unless an explicit per-path rule says left
            if self.rules.get(p) == "left":
                return l
            return r
        if kr == "map":
            m = self.mode("hashes", p)
            if m == "left":
                return l
            if m == "right":
                return r
            return self.dicts(l, r, p)
        if kr == "seq":
            if len(r[1]) == 0:
                if "right" in (self.mode("aoh", p), self.mode("arrays", p)):
                    raise Unspec("empty right-hand list under a 'right' mode")
                if self.mode("aoh", p) == "left":
                    return l
                if l[0] != "seq":
                    raise Impossible("array data into non-array destination")
                return l
            what = "aoh" if is_aoh(r) else "arrays"
            m = self.mode(what, p)
            if m == "left":
                return l
            if m == "right":
                return r
            if l[0] != "seq":
                raise Impossible("array data into non-array destination")
            return self.lists(l, r, p)
        # set
        m = self.mode("sets", p)
        if m == "left":
            return l
        if m == "right":
            return r
        if l[0] != "set":
            raise Unspec("set into non-set under a key")
        return self.sets(l, r, p)

    # ---- lists ------------------------------------------------------------------------
    def lists(self, L, R, p):
        if len(R[1]) == 0:
            return L
        if is_aoh(R):
            m = self.mode("aoh", p)
            if m == "left":
                return L
            if m == "right":
                return R
            if any(r[0] != "map" for r in R[1]):
                raise Unspec("mixed right-hand list")
            if m == "all":
                return ("seq", L[1] + R[1])
            if m == "unique":
                if any(strict_eq(a, b) for i, a in enumerate(R[1]) for b in R[1][i + 1:]):
                    raise Unspec("duplicates inside the right-hand list under unique")
                if loose_conflict([v for rec in L[1] + R[1] if rec[0] == "map" for _k, v in rec[1]]):
                    raise Unspec("python-equal scalars of different type")
                return ("seq", L[1] + [r for r in R[1] if not any(strict_eq(r, l) for l in L[1])])
            if m == "deep":
                idk = self.keys.get(p)
                if idk is None:
                    idk = R[1][0][1][0][0] if R[1][0][1] else None
                if idk is None:
                    raise Unspec("empty first record: no identity key")
                out = list(L[1])
                for j, r in enumerate(R[1]):
                    rd = {repr(k): v for k, v in r[1]}
                    if repr(idk) not in rd:
                        raise Impossible("record lacks the identity key")
                    rid = rd[repr(idk)]
                    if rid[0] != "s":
                        raise Unspec("complex identity value")
                    hit = None
                    cands = []
                    for i, l in enumerate(out):
                        if l[0] == "map":
                            ld = {repr(k): v for k, v in l[1]}
                            if repr(idk) in ld and ld[repr(idk)][0] == "s":
                                if strict_eq(ld[repr(idk)], rid):
                                    cands.append(i)
                                elif ld[repr(idk)][1] == rid[1]:
                                    raise Unspec("python-equal identity values of different type")
                                elif str(ld[repr(idk)][1]).lower() == str(rid[1]).lower():
                                    # '1' / 1, 'true' / true: whether text spelled like a number is that number's
                                    # identity is not documented
                                    raise Unspec("identity values equal as text, different as data")
                    if len(cands) > 1:
                        raise Unspec("several left records share the identity")
                    if cands:
                        hit = cands[0]
                    if hit is None:
                        out.append(r)
                    else:
                        out[hit] = self.dicts(out[hit], r, p + "/[%d]" % j)
                return ("seq", out)
            raise Unspec("aoh mode %s" % m)
        m = self.mode("arrays", p)
        if m == "left":
            return L
        if m == "right":
            return R
        if m == "all":
            return ("seq", L[1] + R[1])
        if m == "unique":
            if loose_conflict(L[1] + R[1]):
                raise Unspec("python-equal scalars of different type")
            if any(strict_eq(a, b) for i, a in enumerate(R[1]) for b in R[1][i + 1:]):
                raise Unspec("duplicates inside the right-hand list under unique")
            return ("seq", L[1] + [r for r in R[1] if not any(strict_eq(r, l) for l in L[1])])
        raise Unspec("array mode %s" % m)

    def sets(self, L, R, p):
        m = self.mode("sets", p)
        if m == "left":
            return L
        if m == "right":
            return R
        return ("set", L[1] + [x for x in R[1] if repr(x) not in [repr(y) for y in L[1]]])


def norm(p, left_keys_order=None):
    """Comparable form: mappings as sorted key lists (order checked separately)."""
    if p[0] == "map":
        return ("map", tuple(sorted(((repr(k), norm(v)) for k, v in p[1]), key=lambda kv: kv[0])))
    if p[0] == "seq":
        return ("seq", tuple(norm(x) for x in p[1]))
    if p[0] == "set":
        return ("set", tuple(sorted(repr(x) for x in p[1])))
    return ("s", repr(p[1]))


def left_order_kept(L, R, M):
    """Do the left-hand keys *not named by the right-hand document* keep their relative order in M
    (recursively where all three are maps)?"""
    if L[0] == "map" and M[0] == "map":
        rk = {repr(k) for k, _ in R[1]} if R[0] == "map" else set()
        lk = [repr(k) for k, _ in L[1] if repr(k) not in rk]
        mk = [repr(k) for k, _ in M[1] if repr(k) in lk]
        if mk != [k for k in lk if k in mk]:
            return False
        md = {repr(k): v for k, v in M[1]}
        rd = {repr(k): v for k, v in R[1]} if R[0] == "map" else {}
        return all(left_order_kept(v, rd[repr(k)], md[repr(k)]) for k, v in L[1]
                   if repr(k) in md and repr(k) in rd)
    return True

"""Plain-data edit model for C03 / C04 / C09 (set, delete, create).

A document image is a nested structure of plain python values:
  {"t": "map", "a": anchor, "items": [[keyimage, child], ...]}
  {"t": "seq", "a": anchor, "items": [child, ...]}
  {"t": "set", "a": anchor, "items": [scalarimage, ...]}
  {"t": "s",   "a": anchor, "v": (kind, value)}
Locations are tuples of child ordinals (the `ord` of vf.model.pathsem.Pos).
"""
import copy

from vf.core import yp


def image(n):
    a = yp.anchor_of(n)
    if isinstance(n, dict):
        img = {"t": "map", "a": a, "items": [[key_image(k), image(v)] for k, v in yp.own_items(n)]}
        if yp.merge_refs(n):
            img["merge"] = yp.merge_refs(n)      # `<<` references; inherited keys are not part of the image
        return img
    if yp.is_set(n):
        return {"t": "set", "a": a, "items": [list(yp.scalar_plain(e)) for e in n]}
    if isinstance(n, list):
        return {"t": "seq", "a": a, "items": [image(e) for e in n]}
    return {"t": "s", "a": a, "v": list(yp.scalar_plain(n))}


def effective(n, _depth=0):
    """What a reader of the document sees: every key a mapping holds *or inherits*, anchors and merge
    bookkeeping left out (order of inherited keys is not data)."""
    if isinstance(n, dict):
        own = {repr(key_image(k)[:2]) for k, _ in yp.own_items(n)}
        items = [[key_image(k)[:2], effective(v, _depth + 1)] for k, v in n.items()]
        return {"t": "map", "own": [kv for kv in items if repr(kv[0]) in own],
                "inherited": sorted((kv for kv in items if repr(kv[0]) not in own), key=repr)}
    if yp.is_set(n):
        return {"t": "set", "items": [list(yp.scalar_plain(e)) for e in n]}
    if isinstance(n, list):
        return {"t": "seq", "items": [effective(e, _depth + 1) for e in n]}
    return {"t": "s", "v": list(yp.scalar_plain(n))}


def key_image(k):
    if yp.is_container(k):
        return ["ckey", repr(k)]
    return list(yp.scalar_plain(k)) + ([yp.anchor_of(k)] if yp.anchor_of(k) else [])


def value_image(v, anchor=None):
    return {"t": "s", "a": anchor, "v": list(yp.scalar_plain(v))}


def get(img, loc):
    cur = img
    for i in loc:
        if cur["t"] == "map":
            cur = cur["items"][i][1]
        elif cur["t"] == "seq":
            cur = cur["items"][i]
        else:
            raise KeyError("set member has no image node")
    return cur


def put(img, loc, new):
    if not loc:
        return new
    par = get(img, loc[:-1])
    i = loc[-1]
    if par["t"] == "map":
        par["items"][i][1] = new
    elif par["t"] == "seq":
        par["items"][i] = new
    else:
        raise KeyError("cannot put into a set")
    return img


def apply_set(img, locs, value):
    """value at every location (anchor name kept)."""
    img = copy.deepcopy(img)
    for loc in locs:
        old = get(img, loc)
        img = put(img, loc, value_image(value, old.get("a")))
    return img


def apply_delete(img, locs):
    img = copy.deepcopy(img)
    locs = sorted(set(locs))
    # an ancestor subsumes its descendants
    keep = []
    for l in locs:
        if not any(l[:len(k)] == k and len(k) < len(l) for k in locs):
            keep.append(l)
    # delete deepest/rightmost first so ordinals stay valid
    for l in sorted(keep, reverse=True):
        par = get(img, l[:-1])
        del par["items"][l[-1]]
    return img


def diff(a, b, loc=()):
    """First few differing locations between two images."""
    out = []

    def walk(x, y, loc):
        if len(out) >= 6:
            return
        if x["t"] != y["t"]:
            out.append((loc, "kind %s -> %s" % (x["t"], y["t"])))
            return
        if x.get("a") != y.get("a"):
            out.append((loc, "anchor %r -> %r" % (x.get("a"), y.get("a"))))
        if x["t"] == "s":
            if x["v"] != y["v"]:
                out.append((loc, "value %r -> %r" % (x["v"], y["v"])))
            return
        if x["t"] == "set":
            if x["items"] != y["items"]:
                out.append((loc, "set %r -> %r" % (x["items"], y["items"])))
            return
        if x["t"] == "map":
            if x.get("merge") != y.get("merge"):
                out.append((loc, "merge-refs %r -> %r" % (x.get("merge"), y.get("merge"))))
            kx = [k for k, _ in x["items"]]
            ky = [k for k, _ in y["items"]]
            if kx != ky:
                out.append((loc, "keys %r -> %r" % (kx, ky)))
                return
            for i, ((_, cx), (_, cy)) in enumerate(zip(x["items"], y["items"])):
                walk(cx, cy, loc + (i,))
            return
        if len(x["items"]) != len(y["items"]):
            out.append((loc, "length %d -> %d" % (len(x["items"]), len(y["items"]))))
            return
        for i, (cx, cy) in enumerate(zip(x["items"], y["items"])):
            walk(cx, cy, loc + (i,))
    walk(a, b, loc)
    return out


def strip_anchors(img):
    img = copy.deepcopy(img)

    def walk(x):
        x["a"] = None
        x.pop("merge", None)          # anchor names again; what is inherited is compared by effective()
        if x["t"] == "map":
            for kv in x["items"]:
                if len(kv[0]) > 2:
                    kv[0] = kv[0][:2]
                walk(kv[1])
        elif x["t"] == "seq":
            for c in x["items"]:
                walk(c)
    walk(img)
    return img


def positions(data):
    """Every position of the live tree: list of (loc, node, parent, ref)."""
    out = []

    def walk(n, loc, parent, ref):
        out.append((loc, n, parent, ref))
        if isinstance(n, dict):
            for i, (k, v) in enumerate(yp.own_items(n)):
                walk(v, loc + (i,), n, k)
        elif isinstance(n, list) and not yp.is_set(n):
            for i, e in enumerate(n):
                walk(e, loc + (i,), n, i)
    walk(data, (), None, None)
    return out


def own_loc(data, loc):
    """An items()-ordinal location (vf.model.pathsem) as an image location, or None when it passes
    through a key the mapping only inherits via `<<`."""
    out, n = [], data
    for i in loc:
        if isinstance(n, dict):
            k, v = list(n.items())[i]
            own = [kk for kk, _ in yp.own_items(n)]
            j = next((j for j, kk in enumerate(own) if kk is k or (type(kk) is type(k) and kk == k)), None)
            if j is None:
                return None
            out.append(j)
            n = v
        elif isinstance(n, list) and not yp.is_set(n):
            out.append(i)
            n = n[i]
        else:
            out.append(i)
    return tuple(out)


def alias_sites(data, node):
    """Locations at which this very (anchored) object occurs as a value."""
    if yp.anchor_of(node) is None:
        return []
    return [loc for (loc, n, _p, _r) in positions(data) if n is node]

"""Reference comparator for the nine search operators (C12 statement).

Three-valued: decide(op, value, term) -> True (must match) | False (must not)
| None (documentation silent: readings disagree).

A *reading* of a value is (kind, payload, text) with kind in
{"int","float","bool","text","null"}; where the statement is silent the value
gets several readings and a cell is decided only when all agree.

Not silent (single reading):
 * prefix/suffix/substring/regex act on the value's text; the text of a
   *string* value is that string's characters; of an int/float its usual
   decimal text; of a date its ISO text;
 * equality is numeric when both sides are numbers of the same kind, textual
   otherwise; booleans match their case-insensitive spellings;
 * ordering is numeric for numeric values, false against a non-numeric term,
   lexicographic for text.
Silent (several readings): whether a *string* spelled like a number / boolean
counts as one for = and ordering; whether booleans are numbers; the text of
null and of a bare boolean; numeric spellings beyond plain decimal ints and
floats (0x10, 1_0, 1e3, +5, leading zeros, padding) as terms.
"""
import datetime
import operator
import re

INT_RE = re.compile(r"^-?(0|[1-9][0-9]*)$")
FLOAT_RE = re.compile(r"^-?(0|[1-9][0-9]*)\.[0-9]+$")
ORD = {">": operator.gt, "<": operator.lt, ">=": operator.ge, "<=": operator.le}


def _exotic_number(s):
    """Python-literal readings of a text that is not a plain decimal int/float."""
    import ast
    try:
        t = s
        if s.lower() in ("true", "false"):
            return None
        v = ast.literal_eval(t)
    except Exception:
        return None
    if isinstance(v, bool):
        return None
    if isinstance(v, (int, float)):
        return v
    return None


def term_readings(term):
    """Readings of the (string) search term."""
    out = []
    if INT_RE.match(term):
        return [("int", int(term), term)]
    if FLOAT_RE.match(term):
        return [("float", float(term), term)]
    if term.lower() in ("true", "false"):
        b = term.lower() == "true"
        # is a boolean spelling a number for ordering?  silent -> both
        return [("bool", b, term), ("boolnum", int(b), term)]
    out.append(("text", term, term))
    ex = _exotic_number(term)
    if ex is not None:
        out.append(("int" if isinstance(ex, int) else "float", ex, term))
    return out


def value_readings(v):
    if v is None:
        return [("null", None, t) for t in ("None", "null", "", "~")]
    if isinstance(v, bool) or type(v).__name__ == "ScalarBoolean":
        b = bool(v)
        # text of a bare boolean is not documented: Python/YAML spelling or (ruamel's anchored booleans) 1/0
        texts = ("True", "true", "1") if b else ("False", "false", "0")
        return [("bool", b, t) for t in texts] + [("boolnum", int(b), t) for t in texts]
    if isinstance(v, int):
        return [("int", int(v), str(int(v)))]
    if isinstance(v, float):
        f = float(v)
        texts = {str(f)}
        src = str(v)
        texts.add(src)
        return [("float", f, t) for t in sorted(texts)]
    if isinstance(v, (datetime.date, datetime.datetime)):
        # the text of a date: its ISO date, or date + time in either separator (silent which)
        texts = {v.isoformat(), str(v)}
        if isinstance(v, datetime.datetime):
            texts.add(v.isoformat(" "))
            if (v.hour, v.minute, v.second, v.microsecond) == (0, 0, 0, 0):
                texts.add(v.date().isoformat())
        return [("text", t, t) for t in sorted(texts)]
    s = str(v)
    out = [("text", s, s)]
    # a string spelled like a number/boolean: silent whether it compares as one
    if INT_RE.match(s):
        out.append(("int", int(s), s))
    elif FLOAT_RE.match(s):
        out.append(("float", float(s), s))
    elif s.lower() in ("true", "false"):
        out.append(("bool", s.lower() == "true", s))
        out.append(("boolnum", int(s.lower() == "true"), s))
    else:
        ex = _exotic_number(s) if s.strip() == s or True else None
        if ex is not None:
            out.append(("int" if isinstance(ex, int) else "float", ex, s))
    return out


def _is_num(kind):
    return kind in ("int", "float", "boolnum")


def _one(op, vr, tr):
    vk, vp, vt = vr
    tk, tp, tt = tr
    if op == "=":
        vb, tb = vk in ("bool", "boolnum"), tk in ("bool", "boolnum")
        if vb and tb:
            return bool(vp) == bool(tp)
        if vk == tk and vk in ("int", "float"):
            return vp == tp
        if (vk == "boolnum" and tk in ("int", "float")) or (tk == "boolnum" and vk in ("int", "float")):
            return vp == tp
        return vt == tt
    if op == "^":
        return vt.startswith(tt)
    if op == "$":
        return vt.endswith(tt)
    if op == "%":
        return tt in vt
    if op == "=~":
        return re.search(tt, vt) is not None
    f = ORD[op]
    if _is_num(vk):
        if _is_num(tk):
            return f(vp, tp)
        return False
    return f(vt, tt)


TEXT_OPS = ("^", "$", "%", "=~")


def decide(op, value, term):
    """True / False / None(unspecified).  Raises re.error for an ill-formed regex."""
    vrs = value_readings(value)
    trs = term_readings(term)
    if op in TEXT_OPS:
        # text operators: only the text readings matter; de-duplicate by text
        vts = sorted({r[2] for r in vrs})
        res = {_one(op, ("text", t, t), ("text", term, term)) for t in vts}
    else:
        res = {_one(op, vr, tr) for vr in vrs for tr in trs}
    if len(res) == 1:
        return res.pop()
    return None


def py_retype(s):
    """What a Python-literal re-typing of a *string* value would turn it into
    (used only to classify the known mechanism 'string value re-typed')."""
    import ast
    try:
        t = s.title() if s.lower() in ("true", "false") else s
        return ast.literal_eval(t)
    except (ValueError, SyntaxError):
        return s
    except Exception:
        return s

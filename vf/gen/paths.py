"""Path ASTs, an independent renderer (README escaping rules), and generators.

Segment forms (tuples):
  ("KEY", text)                 ("INDEX", i)            ("SLICE", a, b)
  ("HSLICE", lo, hi)            hash/set slice by text  ("ANCHOR", name)
  ("SEARCH", inverted, op, attr, term)   op in OPS; attr "." or key or dotted descendant
  ("WILD", pattern)             key with one or more * (sugar for a search on '.')
  ("ALL",)  ("TRAVERSE",)
  ("KW", inverted, keyword, params)      params: list of str
  ("COLL", op, [segments])      op in "", "+", "-", "&"
"""
import re
OPS = ["=", "^", "$", "%", ">", "<", ">=", "<=", "=~"]
SPECIALS_DOT = set(". [ ] ( ) ' \" ^ $ % \\".split()) | {" "}
KEYWORDS = ["has_child", "name", "max", "min", "parent", "unique", "distinct"]


def esc(text, sep, extra=""):
    """Backslash-escape every character with syntactic meaning."""
    out = []
    for ch in text:
        if ch in "\\[]()'\"^$% &!=<>~*," + extra or ch == sep:
            out.append("\\" + ch)
        else:
            out.append(ch)
    return "".join(out)


def esc_key(text, sep, style="bs"):
    """Render key text.  style: 'bs' backslashes, 'q' quote demarcation where possible."""
    # README documents demarcation for keys holding separators ("dotted Hash keys"); other specials
    # (brackets, parentheses, quotes, ^ $ %) are only rendered with backslashes
    if style == "q" and text and all(ch.isalnum() or ch in "./ _-" for ch in text) and text == text.strip():
        return "'" + text + "'"
    out = []
    for i, ch in enumerate(text):
        if style == "min" and ch in "./" and ch != sep and not (ch == "/" and i == 0):
            out.append(ch)        # 'min': the OTHER notation's separator is ordinary text here and is left bare
        elif ch in "\\[]()'\"^$% ./":
            out.append("\\" + ch)
        elif ch in "&!=<>~,:+-" and (i == 0 or ch in "=<>~!"):
            out.append("\\" + ch)
        elif ch == "*":
            out.append("\\" + ch)
        else:
            out.append(ch)
    return "".join(out)


def render_term(op, term, style="bs"):
    if op == "=~":
        for d in "/|_#;@":
            if d not in term:
                return d + term + d
        raise ValueError("no regex delimiter for %r" % term)
    if style == "qt" and term and term == term.strip() and all(ch.isalnum() or ch in " ._-'\"" for ch in term):
        # quote demarcation of the whole term (README: [name="a b"]); the mark is the one the term itself
        # begins or ends with when there is one, so that an escaped mark sits next to the real one
        q = term[0] if term[0] in "'\"" else term[-1] if term[-1] in "'\"" else '"'
        return q + "".join("\\" + ch if ch in "'\"\\" else ch for ch in term) + q      # both marks are escaped inside
    out = []
    for ch in term:
        if ch in "\\[]()'\" =^$%!<>~":
            out.append("\\" + ch)
        else:
            out.append(ch)
    return "".join(out)


def render_seg(seg, sep, first, style="bs"):
    """Returns (text, needs_separator_before)."""
    t = seg[0]
    if t == "KEY":
        return esc_key(seg[1], sep, style), True
    if t == "INDEX":
        return "[%d]" % seg[1], False
    if t == "SLICE":
        return "[%d:%d]" % (seg[1], seg[2]), False
    if t == "HSLICE":
        return "[%s:%s]" % (esc(seg[1], sep), esc(seg[2], sep)), False
    if t == "ANCHOR":
        if first:
            return "&" + seg[1], True
        return "[&%s]" % seg[1], False
    if t == "SEARCH":
        _, inv, op, attr, term = seg
        a = attr if attr == "." else esc_key(attr, "\0", "bs") if "." not in attr and "/" not in attr else attr
        if inv and style == "q":
            return "[!%s%s%s]" % (a, op, render_term(op, term)), False     # README: both forms are equivalent
        return "[%s%s%s%s]" % (a, "!" if inv else "", op, render_term(op, term, "qt" if style == "qt" else "bs")), False
    if t == "WILD":
        return seg[1], True
    if t == "ALL":
        return "*", True
    if t == "TRAVERSE":
        return "**", True
    if t == "KW":
        _, inv, kw, params = seg
        return "[%s%s(%s)]" % ("!" if inv else "", kw, ", ".join(params)), False
    if t == "COLL":
        _, op, inner = seg
        # the inner path is parsed on its own: in slash notation it must itself start with /
        return "%s(%s)" % (op, render(inner, sep, lead=(sep == "/"))), False
    raise ValueError(seg)


def render(segs, sep=".", lead=True, style="bs"):
    out = "/" if (sep == "/" and lead) else ""
    first = True
    for s in segs:
        txt, needsep = render_seg(s, sep, first, style)
        if needsep and not first:
            out += sep
        out += txt
        first = False
    return out


# ---------------------------------------------------------------------------
class PathGen:
    """Random paths biased towards what occurs in the document at hand."""

    def __init__(self, rng, vocab=None, keywords=False, collectors=False, anchors=True, hslice=True,
                 wild=True, maxseg=4):
        self.r = rng
        v = vocab or {}
        self.keys = v.get("keys") or ["a", "b", "c"]
        self.terms = v.get("terms") or ["a", "b", "1"]
        self.anchor_names = v.get("anchors") or []
        self.maxlen = v.get("maxlen", 3)
        self.keywords, self.collectors = keywords, collectors
        self.anchors, self.hslice, self.wild = anchors, hslice, wild
        self.maxseg = maxseg

    def key(self):
        r = self.r
        if r.random() < 0.8:
            return r.choice(self.keys)
        return r.choice(["a", "b", "zz", "0", "1", "-1", "2", "9"])

    def term(self, op):
        r = self.r
        if op == "=~":
            return r.choice(["a", "^a", "b$", "1", ".", "^.$", "a|b", "[0-9]", "^$", "x*"])
        if r.random() < 0.75:
            return r.choice(self.terms)
        return r.choice(["a", "b", "1", "0", "ab", "1.5", "true", "2", "zz", "10", "5", ""]) or "a"

    def seg(self):
        r = self.r
        x = r.random()
        if x < 0.34:
            return ("KEY", self.key())
        if x < 0.46:
            n = self.maxlen
            return ("INDEX", r.choice([0, 1, 2, -1, -2, n - 1, n, -n, -n - 1, n + 2]))
        if x < 0.53:
            n = self.maxlen
            a = r.choice([0, 1, 2, -1, -2, n, -n - 1])
            b = r.choice([a, a + 1, a + 2, n, n + 2, 0, -1])
            return ("SLICE", a, b)
        if x < 0.56 and self.hslice:
            lo, hi = sorted([r.choice(self.keys + ["a", "b"]), r.choice(self.keys + ["c", "z"])])
            return ("HSLICE", lo, hi)
        if x < 0.78:
            op = r.choice(OPS)
            attr = r.choice([".", ".", "."] + self.keys[:4] + ["a.b", "zz"])
            return ("SEARCH", r.random() < 0.3, op, attr, self.term(op))
        if x < 0.81 and self.wild:
            k = r.choice(self.keys + ["a", "ab"])
            k = k or "a"
            return ("WILD", r.choice([k[:1] + "*", "*" + k[-1:], k[:1] + "*" + k[-1:]]))
        if x < 0.84 and self.anchors:
            return ("ANCHOR", r.choice(self.anchor_names + ["A1", "zz"]))
        if x < 0.92:
            return ("ALL",)
        if x < 0.97 or not self.keywords:
            return ("TRAVERSE",)
        return self.kwseg()

    def kwseg(self):
        r = self.r
        kw = r.choice(KEYWORDS)
        inv = r.random() < 0.3
        if kw == "has_child":
            params = [r.choice(self.keys + ["zz", "&A1"])]
        elif kw == "name":
            params = []
        elif kw in ("max", "min", "unique", "distinct"):
            params = [] if r.random() < 0.5 else [r.choice(self.keys)]
        else:
            params = [] if r.random() < 0.4 else [str(r.choice([0, 1, 2, 3, 5]))]
        return ("KW", inv, kw, params)

    def path(self, n=None):
        r = self.r
        n = n or r.choice([1, 1, 2, 2, 2, 3, 3, 4][:max(1, self.maxseg * 2)])
        n = min(n, self.maxseg)
        segs = []
        for _ in range(n):
            s = self.kwseg() if (self.keywords and r.random() < 0.25) else self.seg()
            if s[0] == "TRAVERSE" and segs and segs[-1][0] == "TRAVERSE":
                s = ("ALL",)
            segs.append(s)
        return segs


def doc_vocab(data):
    """Collect keys, scalar texts, anchor names and max list length from a loaded document."""
    keys, terms, anchors = [], [], []
    maxlen = [1]

    def walk(n, depth=0):
        a = getattr(getattr(n, "anchor", None), "value", None)
        if a and a not in anchors:
            anchors.append(a)
        if isinstance(n, dict):
            for k, v in n.items():
                ks = str(k)
                if ks not in keys:
                    keys.append(ks)
                ka = getattr(getattr(k, "anchor", None), "value", None)
                if ka and ka not in anchors:
                    anchors.append(ka)
                walk(v, depth + 1)
        elif isinstance(n, list):
            maxlen[0] = max(maxlen[0], len(n))
            for e in n:
                walk(e, depth + 1)
        elif isinstance(n, (set,)) or type(n).__name__ == "CommentedSet":
            for e in n:
                if str(e) not in keys:
                    keys.append(str(e))
        elif n is not None:
            s = str(n)
            if s not in terms and len(s) < 12:
                terms.append(s)
            if isinstance(n, float) and not isinstance(n, bool) and re.match(r"^-?[0-9]+\.[0-9]+$", s) and s + "0" not in terms:
                terms.append(s + "0")         # the same number in a non-canonical decimal spelling (1.50)
    walk(data)
    return {"keys": keys[:12], "terms": terms[:12], "anchors": anchors, "maxlen": maxlen[0]}


# reduced vocabulary for the exhaustive k<=2 grid
def reduced_segments():
    segs = [("KEY", k) for k in ["a", "b", "1", "0", "-1"]]
    segs += [("INDEX", i) for i in [0, 1, -1, 2, -3]]
    segs += [("SLICE", 0, 1), ("SLICE", 0, 2), ("SLICE", 1, 1), ("SLICE", 1, 3)]
    segs += [("HSLICE", "a", "b")]
    for op in OPS:
        term = "a" if op != "=~" else "^a"
        segs.append(("SEARCH", False, op, ".", term))
        segs.append(("SEARCH", True, op, ".", term))
        segs.append(("SEARCH", False, op, "a", "1" if op != "=~" else "1"))
    segs += [("SEARCH", True, "=", "a", "1"), ("SEARCH", False, "=", "b", "a"),
             ("SEARCH", False, ">", ".", "1"), ("SEARCH", False, "<=", ".", "1")]
    segs += [("WILD", "a*"), ("WILD", "*a"), ("ALL",), ("TRAVERSE",)]
    return segs

"""Seeded document generators.

Documents are produced as YAML *text* (flow style) and always enter the system
through yamlpath's own strict loader (vf.core.yp.load).  Three identity
regimes (DESIGN 2.4):  N natural (plain scalars: CPython shares small ints,
True/False/None and 1-char strings), U unique-leaf (double-quoted strings,
floats, 0x ints: ruamel builds a distinct object per occurrence), A anchored
(scalar anchors with aliases under map keys and inside sequences).

Intermediate form ("tree"): nested python values
    ("map", [(keytext, tree), ...]) | ("seq", [tree...]) | ("set", [text...])
    | ("s", yamltext)  scalar written verbatim
    | ("anc", name, tree) anchored node | ("ali", name) alias
"""
import itertools

KEYS_SMALL = ["a", "b", "1"]
KEYS = ["a", "b", "c", "ab", "0", "1", "id", "name"]
SCAL_SMALL = ["null", "true", "1", "1.5", "'a'", "''"]
SCAL_N = ["null", "true", "false", "0", "1", "2", "-1", "10", "1.5", "2.0", "a", "b", "ab", "abc",
          "'5'", "'true'", "''", "'x y'", "b a"]
SCAL_U = ['"a"', '"b"', '"ab"', '"abc"', '"5"', '"x y"', '""', "1.5", "2.0", "0.5", "0x1", "0x2", "0xa", "1_0",
          "'{[1]: 2}'", "'(1,)'", "'[1'"]     # strings that merely resemble Python literals
SET_MEMBERS = ["a", "b", "ab", "c"]
ESCAPABLE = list(". / [ ] ( ) ' \" ^ $ % & \\".split()) + [" "]      # & matters as a key's first character only (\\&); a backslash is data too


def render(t):
    k = t[0]
    if k == "s":
        return t[1]
    if k == "map":
        return "{" + ", ".join("%s: %s" % (rk(key), render(v)) for key, v in t[1]) + "}"
    if k == "seq":
        return "[" + ", ".join(render(v) for v in t[1]) + "]"
    if k == "set":
        return "!!set {" + ", ".join("%s" % rk(m) for m in t[1]) + "}"
    if k == "anc":
        return "&%s %s" % (t[1], render(t[2]))
    if k == "ali":
        return "*%s" % t[1]
    raise ValueError(t)


def rk(key):
    """Render a mapping key / set member (already YAML text or plain word)."""
    if isinstance(key, tuple):
        return render(key)
    return key


def qkey(text):
    """Quote arbitrary key text for YAML flow context."""
    return '"' + text.replace("\\", "\\\\").replace('"', '\\"') + '"'


def count_nodes(t):
    k = t[0]
    if k == "map":
        return 1 + sum(count_nodes(v) for _, v in t[1])
    if k == "seq":
        return 1 + sum(count_nodes(v) for v in t[1])
    if k == "set":
        return 1 + len(t[1])
    if k == "anc":
        return count_nodes(t[2])
    return 1


# ---------------------------------------------------------------------------
def enum_trees(n, keys=KEYS_SMALL, scalars=SCAL_SMALL, sets=True):
    """All trees with exactly n nodes over the reduced alphabet."""
    if n == 1:
        for s in scalars:
            yield ("s", s)
        yield ("map", [])
        yield ("seq", [])
        return
    # containers with children summing to n-1
    for parts in compositions(n - 1):
        # sequence
        for kids in itertools.product(*[list(enum_trees(p, keys, scalars, sets)) for p in parts]):
            yield ("seq", list(kids))
        # map: ordered distinct keys
        if len(parts) <= len(keys):
            for ks in itertools.permutations(keys, len(parts)):
                if list(ks) != sorted(ks, key=keys.index):
                    continue  # key order canonical: only increasing key order, halves the space
                for kids in itertools.product(*[list(enum_trees(p, keys, scalars, sets)) for p in parts]):
                    yield ("map", list(zip(ks, kids)))
    if sets and 1 <= n - 1 <= 2:
        for ms in itertools.combinations(["a", "b"], n - 1):
            yield ("set", list(ms))


def compositions(n):
    if n == 0:
        yield ()
        return
    for first in range(1, n + 1):
        for rest in compositions(n - first):
            yield (first,) + rest


# ---------------------------------------------------------------------------
class DocGen:
    def __init__(self, rng, regime="N", keys=None, max_depth=4, max_children=4, sets=True,
                 special_keys=False, scalars=None):
        self.r = rng
        self.regime = regime
        self.keys = keys or KEYS
        self.max_depth = max_depth
        self.max_children = max_children
        self.sets = sets
        self.special_keys = special_keys
        self.scalars = scalars
        self.anchors = []       # names defined so far (scalar anchors)
        self.n_anchor = 0

    def scalar(self):
        r = self.r
        if self.scalars:
            return ("s", r.choice(self.scalars))
        if self.regime == "U":
            return ("s", r.choice(SCAL_U))
        if self.regime == "A":
            x = r.random()
            if self.anchors and x < 0.3:
                return ("ali", r.choice(self.anchors))
            if x < 0.55 and self.n_anchor < 3:
                self.n_anchor += 1
                name = "A%d" % self.n_anchor
                node = ("anc", name, ("s", r.choice(SCAL_N[1:])))   # never anchor a null
                self.anchors.append(name)
                return node
        return ("s", r.choice(SCAL_N))

    def key(self, used):
        r = self.r
        for _ in range(20):
            if self.special_keys and r.random() < 0.5:
                base = r.choice(["a", "b", "k", ""])
                ch = r.choice(ESCAPABLE)
                pos = r.randrange(3)
                txt = [ch + base, base + ch, base + ch + base][pos]
                if r.random() < 0.2:
                    txt += r.choice(ESCAPABLE)
                if not txt.strip() or txt in ("'", '"'):
                    txt = "k" + txt
                k = qkey(txt)
            else:
                k = r.choice(self.keys)
            if k not in used:
                used.add(k)
                return k
        return None

    def tree(self, depth=0, want=None):
        r = self.r
        x = r.random()
        if want is None:
            if depth >= self.max_depth or (depth > 0 and x < 0.35):
                want = "scalar"
            elif x < 0.62:
                want = "map"
            elif x < 0.8:
                want = "seq"
            elif x < 0.9:
                want = "aoh"
            elif x < 0.96 and self.sets:
                want = "set"
            else:
                want = "seq"
        if want == "scalar":
            return self.scalar()
        nkids = r.randrange(0, self.max_children + 1)
        if want == "map":
            used = set()
            items = []
            for _ in range(nkids):
                k = self.key(used)
                if k is None:
                    break
                items.append((k, self.tree(depth + 1)))
            return ("map", items)
        if want == "seq":
            return ("seq", [self.tree(depth + 1) for _ in range(nkids)])
        if want == "aoh":
            recs = []
            for _ in range(max(1, nkids)):
                used = set()
                items = []
                for _ in range(r.randrange(1, 4)):
                    k = self.key(used)
                    if k is None:
                        break
                    items.append((k, self.tree(depth + 2) if r.random() < 0.25 else self.scalar()))
                recs.append(("map", items))
                if r.random() < 0.08:
                    recs.append(("s", "null"))
            return ("seq", recs)
        if want == "set":
            ms = r.sample(SET_MEMBERS, r.randrange(1, 4))
            return ("set", ms)
        raise ValueError(want)


KEYS_TWIN = KEYS + ["'1'", "'0'", "1.5", "'1.5'", "2", "'2'"]   # no Boolean keys: Python's True == 1 conflates them


def gen_doc(rng, regime=None, **kw):
    """Returns (yaml_text, regime)."""
    if regime is None:
        regime = rng.choice(["N", "N", "U", "U", "A"])
    g = DocGen(rng, regime, **kw)
    t = g.tree(0, want=rng.choice(["map", "map", "map", "seq", "aoh", None]))
    return render(t), regime


HOSTILE = [
    "[]", "{}", "[[], {}, [[]], null]", "{a: null, b: [null, null], c: {}}",
    "[1, a, 1.5, true, null, [1], {a: 1}]",
    "{1: a, 2: b, 10: c}", "{0: {0: {0: x}}}",
    "!!set {a, b, ab}", "{s: !!set {a, b}, t: [!!set {a}]}",
    "[{a: 1}, null, {a: 2}]", "[{a: 1}, {b: 2}, {a: 3}]",
    "{a: [{b: 1}, {b: 2}]}", "{a: [1, [2, 3]]}",
    "{x: {y: {z: 1}}, y: {z: 2}}", "{a: 1, ab: 2, c: 3}",
    "{a: &A 1, b: *A, c: [*A, 1]}", "{a: &X {p: 1}, b: {<<: *X, q: 2}}",
    "[a, [], b]", "[a, b, c]", "{a: b, b: x}", "[1, 1, 2]",
    "{h: {x: 1, y: 2}, g: {x: 1}}",
    "[{v: 2}, {v: 5}, {w: 9}, {v: 5}, {v: null}]",
    "{a: [{n: 1}, {n: 2}]}",
]


MERGE_VALUES = ["2.5", "1.0", "'x'", '"5"', "true", "false", "8080", "0", "abc", "x y", "null", "[1, 2]", "{q: 1}",
                "[]", "{}"]
MERGE_KEYS = ["ratio", "name", "on", "port", "tags", "opts"]


def gen_merge_doc(rng):
    """A flow-style mapping using YAML merge keys: 1-2 anchored source mappings (often anchored under
    their own key name, the `defaults: &defaults` idiom), 1-3 mappings inheriting from them with `<<`
    (overriding some keys, adding others), optionally a list of inheritors and a plain mapping whose
    keys are spelled like the anchors."""
    names = rng.sample(["defaults", "base", "common"], rng.choice([1, 1, 2]))
    anchors, parts, srckeys = [], [], {}
    for nm in names:
        keys = rng.sample(MERGE_KEYS, rng.randint(1, 4))
        an = nm if rng.random() < 0.6 else nm[0].upper() + "1"
        anchors.append(an)
        srckeys[an] = keys
        parts.append("%s: &%s {%s}" % (nm, an, ", ".join("%s: %s" % (k, rng.choice(MERGE_VALUES)) for k in keys)))

    def inheritor():
        refs = rng.sample(anchors, rng.randint(1, len(anchors)))
        mk = "<<: *%s" % refs[0] if len(refs) == 1 and rng.random() < 0.8 else "<<: [%s]" % ", ".join("*" + r for r in refs)
        pool = MERGE_KEYS + ["extra", "id"] + (anchors if rng.random() < 0.3 else [])
        own = rng.sample(pool, rng.randint(0, 3))
        items = ["%s: %s" % (k, rng.choice(MERGE_VALUES)) for k in own]
        items.insert(rng.randint(0, len(items)), mk)
        return "{%s}" % ", ".join(items)
    chain = rng.random() < 0.3        # layered defaults: an inheritor that is itself merged by another mapping (and so on)
    for i in range(rng.randint(1, 3)):
        parts.append("svc%d: %s%s" % (i, "&L2 " if chain and i == 0 else "", inheritor()))
    if chain:
        third = rng.random() < 0.5
        parts.append("tier2: %s{<<: *L2%s}" % ("&L3 " if third else "", rng.choice(["", ", z: 1", ", %s: 7" % rng.choice(MERGE_KEYS)])))
        if third:
            parts.append("tier3: {<<: *L3, y: 2}")
    if rng.random() < 0.4:
        parts.append("jobs: [%s]" % ", ".join(inheritor() if rng.random() < 0.7 else "{id: %d}" % j
                                                for j in range(rng.randint(1, 3))))
    if rng.random() < 0.5:
        parts.append("plain: {%s}" % ", ".join("%s: %s" % (k, rng.choice(MERGE_VALUES))
                                                 for k in rng.sample(sorted(set(anchors + names + ["k", "ratio"])), 2)))
    return "{%s}" % ", ".join(parts)


def gen_aliased_container_doc(rng):
    """A flow mapping in which one Hash / Array is anchored and aliased under another key: ONE object at two paths,
    with members named like their own container (so that a deep traversal matches the container and a member)."""
    k = rng.choice(["cfg", "a", "opts"])
    inner = rng.choice(["{%s: 1, other: 2}" % k, "{%s: [1, 2], x: {%s: 3}}" % (k, k), "[%s, b, {%s: 1}]" % (k, k), "{other: 2, %s: {q: 1}}" % k])
    name = "SH%d" % rng.randrange(1000)
    parts = ["top: {%s: &%s %s, z: 1}" % (k, name, inner), "keep: *%s" % name]
    if rng.random() < 0.5:
        parts.append("also: {w: *%s}" % name)
    if rng.random() < 0.5:
        parts.insert(rng.randrange(len(parts) + 1), "%s: plain" % k)
    return "{%s}" % ", ".join(parts)


def deep_doc(depth, kind="map"):
    s = "x"
    for i in range(depth):
        s = "{a: %s}" % s if (kind == "map" or (kind == "mix" and i % 2)) else "[%s]" % s
    return s


def wide_doc(n):
    return "{" + ", ".join("k%d: %d" % (i, i) for i in range(n)) + "}"


def gen_doc_tree(rng, regime=None, **kw):
    """Like gen_doc but returns the tree, for callers that choose the rendering (flow / block)."""
    if regime is None:
        regime = rng.choice(["N", "N", "U", "U", "A"])
    g = DocGen(rng, regime, **kw)
    return g.tree(0, want=rng.choice(["map", "map", "map", "seq", "aoh", None])), regime


def render_block(t, indent=0):
    """Block-style YAML text of a tree (empty containers and sets stay in flow form)."""
    pad = "  " * indent
    k = t[0]
    if k == "map":
        if not t[1]:
            return pad + "{}\n"
        out = []
        for key, v in t[1]:
            if is_inline(v):
                out.append("%s%s: %s\n" % (pad, rk(key), render(v)))
            else:
                out.append("%s%s:\n%s" % (pad, rk(key), render_block(v, indent + 1)))
        return "".join(out)
    if k == "seq":
        if not t[1]:
            return pad + "[]\n"
        out = []
        for v in t[1]:
            if is_inline(v):
                out.append("%s- %s\n" % (pad, render(v)))
            else:
                body = render_block(v, indent + 1)
                # first line of the nested block joins the dash
                out.append("%s- %s" % (pad, body[len(pad) + 2:]))
        return "".join(out)
    return pad + render(t) + "\n"


def is_inline(t):
    k = t[0]
    if k in ("s", "ali", "set"):
        return True
    if k == "anc":
        return is_inline(t[2])
    return not t[1]          # empty containers are written {} / []
